/-
  Property C18.  "Replies to one connection's commands arrive in the order the commands were
  sent, and messages from one sender to one receiver arrive in the order they were sent.  When
  many connections act at the same time each command takes effect atomically: the observable
  outcome equals that of executing the same commands one at a time in some order that respects
  every connection's own order - of simultaneous claims to one nickname exactly one succeeds,
  simultaneous first joins create one channel with one founder, a +l limit is never exceeded -
  and the server keeps answering every live connection."

  Semantics: `Irc/Conc.lean` (sections = lock sections, `runSections`, `interleavings`); read its
  header for what is modelled and what is trusted (tokio `RwLock`, mpsc queues, `select!`,
  worker threads; overlapping READ-lock holders are serialised by the model; the welcome burst
  is executed inside A3; the command counter of a one-section command is merged into it).
  Sequential model: `Irc.handleLine` (`Irc/Step.lean`).  Helper lemmas: `Irc/Props/C18Lemmas.lean`.

  Contents
   1. `split_is_sequential*`   the sections of ONE command back to back are the command
   2. `*_mover`                 the lock-free sections commute with everything foreign
   3. `commit_revalidates`, `one_winner`   the nick race, all interleavings
   4. `serialisable_nick_*`     A1 ; F ; A2 ; G ; A3 against the sequential runs, exact condition,
                                the one corner that is NOT serialisable and what exactly differs
   5. `atomic_by_construction`, `first_join_one_founder`, `limit_never_exceeded`
   6. `per_conn_fifo*`          order of the output streams
   7. `always_answered`         every section is total; PING is answered in every state

  FINDING (known corner, DESIGN.md C18 "L"): nick free at A1, decision "good", nick taken at A3.
  The 433 then comes from `authenticate`: its client token is the NEW nick and the connection
  keeps the refused nick (and `source`, `registered`) recorded, whereas every sequential
  execution of the same commands produces the 433 of `process_nick` (client token = old client
  name, nick not recorded) or a successful registration.  `serialisable_nick_corner` proves that
  this is the ONLY difference: the shared state, every other connection's record, all other
  lines and the queues are those of the sequential run; `corner_not_serialisable` (a `decide`d
  run) shows that the difference is real.
-/
import Irc.Props.C18Lemmas

namespace Irc.C18

open Irc Irc.Conc Reply

/-! ## 1. the sections of one command, back to back, are the command -/

/-- **unregistered NICK** on the handler context: A1 ; A2 ; A3 = `processNick`
    (for every program counter the command starts with, every message `msg`). -/
theorem split_is_sequential_nick {cfg : Cfg} {c : Nat} {n : Str} {x : Ctx} {cn : Conn}
    (msg : Message) (p : Pc) (h : x.w.conn? c = some cn) (ha : cn.authenticated = false) :
    execSection cfg (.authCommit c) (execSection cfg (.authDecide c)
      (execSection cfg (.nickCheck c n) ⟨p, x⟩)) = ⟨.idle, processNick cfg c n msg x⟩ :=
  nick_split_ctx msg p h ha

/-- **`authenticate`** on the handler context: A2 ; A3 = `authenticate` (this is what USER, PASS
    and CAP END call after their connection-local update). -/
theorem split_is_sequential_auth {cfg : Cfg} {c : Nat} {x : Ctx} {cn : Conn}
    (h : x.w.conn? c = some cn) :
    execSection cfg (.authCommit c) (execSection cfg (.authDecide c) ⟨.toDecide, x⟩) =
      ⟨.idle, authenticate cfg c x⟩ := by
  simp only [execSection]
  exact decide_commit_ctx h

/-- **every command**: for a live connection between two commands, executing the sections of
    `splitCommand` back to back is exactly the one-section execution of `handleLine`
    (same world, same program counters, same direct replies, same queue pushes). -/
theorem split_is_sequential {cfg : Cfg} {c : Nat} {line : Str} {σ : CState} {cn : Conn}
    (h : σ.w.conn? c = some cn) (hpc : σ.pc c = .idle) :
    runSections cfg (splitCommand cn.authenticated c line) σ = stepSection cfg (.whole c line) σ :=
  split_is_sequential_aux h hpc

/-- in particular the final world is the one of the sequential model -/
theorem split_is_sequential_world {cfg : Cfg} {c : Nat} {line : Str} {σ : CState} {cn : Conn}
    (h : σ.w.conn? c = some cn) (hpc : σ.pc c = .idle) :
    (runSections cfg (splitCommand cn.authenticated c line) σ).w =
      (handleLine cfg c line { w := σ.w }).w := by
  rw [split_is_sequential h hpc]; rfl

/-- the three sections of an unregistered NICK in the interleaved semantics -/
theorem split_is_sequential_nickSections {cfg : Cfg} {c : Nat} {n : Str} {σ : CState} {cn : Conn}
    (msg : Message) (h : σ.w.conn? c = some cn) (ha : cn.authenticated = false) :
    (runSections cfg (nickSections c n) σ).w = (processNick cfg c n msg { w := σ.w }).w ∧
    (runSections cfg (nickSections c n) σ).dir c =
      σ.dir c ++ (processNick cfg c n msg { w := σ.w }).direct := by
  rw [run_nickSections msg h ha]
  simp [lift]

/-! ### the demo world: two connections that have sent USER and race for the nick `a` -/

namespace Demo

def ip : Str := str "10.0.0.1"
def cfg : Cfg := {}
def nickA : Str := str "a"

/-- connections 1 and 2 are connected and have sent `USER` -/
def w0 : World := run cfg [.connect 1 ip, .connect 2 ip, .line 1 (str "USER u 0 * :U"),
  .line 2 (str "USER v 0 * :V")]
def s0 : CState := { w := w0 }

def authOf (σ : CState) (c : Nat) : Bool := ((σ.w.conn? c).map (·.authenticated)).getD false
def nickOf (σ : CState) (c : Nat) : Option Str := (σ.w.conn? c).bind (·.nick)
def ownerOf (σ : CState) (n : Str) : Option Nat := (Map.lookup n σ.w.users).map (·.owner)
def line433 (client : Str) : Str := srvLine cfg (ErrNicknameInUse433 client nickA)

end Demo

open Demo in
example : splitCommand false 1 (str "NICK a") =
    [.count 1 3, .nickCheck 1 nickA, .authDecide 1, .authCommit 1] := by decide
open Demo in
example : splitCommand true 1 (str "NICK a") = [.whole 1 (str "NICK a")] := by decide
open Demo in
example : splitCommand false 1 (str "USER u 0 * :U") =
    [.count 1 4, .prelude 1 (.USER (str "u") (str "0") (str "*") (str "U")), .authCommit 1] := by
  decide
open Demo in
example : splitCommand true 1 (str "PRIVMSG b :hi") =
    [.whole 1 (str "PRIVMSG b :hi"), .touch 1] := by decide
open Demo in
example : splitCommand true 1 (str "JOIN #a,#b") = [.whole 1 (str "JOIN #a,#b")] := by decide
-- hypotheses of `split_is_sequential` are satisfiable, the conclusion is not trivial:
open Demo in
example : (s0.w.conn? 1).map (·.authenticated) = some false ∧ s0.pc 1 = .idle := by decide
open Demo in
example : Map.keys (runSections cfg (splitCommand false 1 (str "NICK a")) s0).w.users = [nickA] ∧
    ((runSections cfg (splitCommand false 1 (str "NICK a")) s0).dir 1).length = 18 := by decide

/-! ## 2. the lock-free sections are movers; ownership of the connection records -/

/-- **A2 is a both-mover**: `authDecide c` reads and writes only the local components of `c`
    (its record, its program counter, its reply buffer) and the configuration, so it commutes
    with EVERY transformer `f` that does not touch them (`IndepT c f`: `f` commutes with every
    replacement of `c`'s record, counter and buffer, and leaves them as they are). -/
theorem authDecide_mover {cfg : Cfg} {c : Nat} {f : CState → CState} (hf : IndepT c f)
    (σ : CState) :
    stepSection cfg (.authDecide c) (f σ) = f (stepSection cfg (.authDecide c) σ) :=
  authDecide_mover' hf σ

/-- in particular it commutes with any sequence of sections independent of `c` -/
theorem authDecide_mover_run {cfg : Cfg} {c : Nat} {F : List Section}
    (hF : ∀ s ∈ F, SecIndep cfg c s) (σ : CState) :
    runSections cfg (.authDecide c :: F) σ = runSections cfg (F ++ [.authDecide c]) σ := by
  rw [runSections_cons, runSections_append, runSections_cons, runSections_nil]
  exact (authDecide_mover (indepT_run hF) σ).symm

/-- **A1**: the part of `nickCheck` after its read (`set_nick`, connection-local) commutes with
    every `f` independent of `c`; the whole of A1 does so as soon as `f` does not change the
    answer of the read. -/
theorem nickCheck_mover {cfg : Cfg} {c : Nat} {n : Str} {f : CState → CState} (hf : IndepT c f)
    {σ : CState} {cn : Conn} (h : σ.w.conn? c = some cn)
    (hsame : Map.contains n (f σ).w.users = Map.contains n σ.w.users) :
    stepSection cfg (.nickCheck c n) (f σ) = f (stepSection cfg (.nickCheck c n) σ) :=
  nickCheck_mover' hf h hsame

/-- the connection-local part of A1 alone, as a state update -/
theorem nickCheck_local_part {cfg : Cfg} {c : Nat} {n : Str} {σ : CState} {cn : Conn}
    (h : σ.w.conn? c = some cn) (ha : cn.authenticated = false)
    (ht : Map.contains n σ.w.users = false) :
    stepSection cfg (.nickCheck c n) σ = (σ.setConn (cn.setNick n)).setPc c .toDecide ∧
    ∀ f, IndepT c f →
      f ((σ.setConn (cn.setNick n)).setPc c .toDecide) =
        ((f σ).setConn (cn.setNick n)).setPc c .toDecide := by
  refine ⟨step_nickCheck_free h ha ht, fun f hf => ?_⟩
  have hid0 : cn.id = c := conn?_id h
  have hid : (cn.setNick n).id = c := hid0
  rw [hf.comm_pc, hf.comm_conn _ _ hid]

/-- **B2** (`last_activity` after PRIVMSG/NOTICE) is the identity on the model state -/
theorem touch_is_identity (cfg : Cfg) (c : Nat) (σ : CState) :
    stepSection cfg (.touch c) σ = σ := step_touch cfg c σ

/-- **ownership**: the sections of the registration path of a connection `d` (and its counter and
    B2 sections) do not touch the local components of any other connection `c`. -/
theorem registration_sections_independent (cfg : Cfg) {c d : Nat} (h : d ≠ c) :
    (∀ n, SecIndep cfg c (.nickCheck d n)) ∧ SecIndep cfg c (.authDecide d) ∧
    SecIndep cfg c (.authCommit d) ∧ (∀ cmd, SecIndep cfg c (.prelude d cmd)) ∧
    (∀ i, SecIndep cfg c (.count d i)) ∧ SecIndep cfg c (.touch d) :=
  ⟨fun n => secIndep_nickCheck cfg n h, secIndep_authDecide cfg h, secIndep_authCommit cfg h,
   fun cmd => secIndep_prelude cfg cmd h, fun i => secIndep_count cfg i h, secIndep_touch cfg h⟩

/-- The same for one-section commands is the Rust fact "each connection task owns its `ConnState`
    exclusively".  In the model it is FALSE for arbitrary worlds (the ghost field `killedBy`
    of the victim's record is written by KILL / DIE through `User.owner`); it is expected to hold
    where no user is owned by `c` (which `Inv` gives for an unauthenticated `c`).  Proved in
    `Irc/Props/C18Frame.lean` (`whole_sections_independent_full_holds`, with a frame lemma for each of
    the 41 handlers; the ownership hypothesis is needed only for KILL / DIE / SQUIT lines, and
    `whole_section_secIndep` discharges the `SecIndep` hypothesis that the theorems of section 4 take
    for the foreign sections). -/
def whole_sections_independent_full : Prop :=
  ∀ (cfg : Cfg) (c d : Nat) (line : Str) (x : Ctx) (cn : Conn), d ≠ c → cn.id = c →
    (∀ n u, Map.lookup n x.w.users = some u → u.owner ≠ c) →
    handleLine cfg d line (x.setConn cn) = (handleLine cfg d line x).setConn cn ∧
    (handleLine cfg d line x).w.conn? c = x.w.conn? c

/-! ## 3. A3 decides on the state at commit time; exactly one winner -/

/-- **`commit_revalidates`**: whatever A1 saw, A3 (for a connection whose program counter says
    "commit", with its one-shot senders still present) inserts the user iff the nick is free in
    the world A3 runs in:
    * free  → `users` gains exactly `nick ↦ u` with `u.owner = c`; `c` stays authenticated;
    * taken → `users` is unchanged, `c` is unauthenticated again and gets one 433. -/
theorem commit_revalidates {cfg : Cfg} {c : Nat} {σ : CState} {r : Bool} {cn : Conn} {n : Str}
    (hpc : σ.pc c = .toCommit r) (h : σ.w.conn? c = some cn) (hn : cn.nick = some n)
    (hs : cn.hasSender = true) (hq : cn.hasQuitSender = true) :
    (Map.contains n σ.w.users = false →
      (∃ u : User, u.owner = c ∧
        (stepSection cfg (.authCommit c) σ).w.users = Map.insert n u σ.w.users) ∧
      (∃ cn' : Conn, (stepSection cfg (.authCommit c) σ).w.conn? c = some cn' ∧
        cn'.authenticated = cn.authenticated ∧ cn'.nick = some n)) ∧
    (Map.contains n σ.w.users = true →
      stepSection cfg (.authCommit c) σ =
        ((σ.setConn { cn with registered := r, authenticated := false }).addDir c
          [srvLine cfg (ErrNicknameInUse433 n n)]).setPc c .idle) :=
  ⟨fun ht => step_authCommit_free hpc h hn ht hs hq,
   fun ht => step_authCommit_taken hpc h hn ht⟩

/-- the inserted user is found under the nick, the refused one changes no shared state -/
theorem commit_revalidates_iff {cfg : Cfg} {c : Nat} {σ : CState} {r : Bool} {cn : Conn} {n : Str}
    (hpc : σ.pc c = .toCommit r) (h : σ.w.conn? c = some cn) (hn : cn.nick = some n)
    (hs : cn.hasSender = true) (hq : cn.hasQuitSender = true) :
    ((stepSection cfg (.authCommit c) σ).w.users ≠ σ.w.users ↔ Map.contains n σ.w.users = false) := by
  obtain ⟨h1, h2⟩ := commit_revalidates (cfg := cfg) hpc h hn hs hq
  cases ht : Map.contains n σ.w.users with
  | false =>
    obtain ⟨⟨u, _, hu⟩, _⟩ := h1 ht
    simp only [ne_eq, iff_true]
    intro e
    rw [hu] at e
    have : Map.contains n (Map.insert n u σ.w.users) = true := by simp [Map.contains]
    rw [e, ht] at this
    cases this
  | true =>
    rw [h2 ht]
    simp

/-- The outcome of the race for nick `n` between a winner `cw` and a loser `cl` (whose record
    was `cnl`, configured-user flag `rl`), relative to the sequential execution
    "`cw`'s whole NICK, then `cl`'s whole NICK" from `σ0`. -/
structure RaceOutcome (cfg : Cfg) (n : Str) (σ0 : CState) (cw cl : Nat) (cnl : Conn) (rl : Bool)
    (σ : CState) : Prop where
  /-- the winner's command alone registers it … -/
  won : Won cw n σ0 (runSections cfg (nickSections cw n) σ0)
  /-- … and the sequential execution then refuses the loser in A1 -/
  seq : runSections cfg (nickSections cw n ++ nickSections cl n) σ0 =
      (runSections cfg (nickSections cw n) σ0).addDir cl
        [srvLine cfg (ErrNicknameInUse433 cnl.clientName n)]
  /-- the interleaved run IS that sequential execution, or differs from it only by the corner:
      the loser's record is `cornerConn` and the client token of its 433 is the new nick -/
  run : σ = runSections cfg (nickSections cw n ++ nickSections cl n) σ0 ∨
      σ = ((runSections cfg (nickSections cw n) σ0).setConn (cornerConn cnl n rl)).addDir cl
        [srvLine cfg (ErrNicknameInUse433 n n)]

/-- **`one_winner`**.  Two live, unauthenticated connections `c₁ ≠ c₂`, both with decision "good",
    claim the same free nick `n`.  For EVERY interleaving `l` of their section triples (the 20
    order-respecting merges), one of them wins and the run is the sequential execution with the
    winner first, up to the corner.  Proof: whichever A3 runs last has all three sections of the
    other connection before it; `serialisable_nick` for that connection does the rest. -/
theorem one_winner {cfg : Cfg} {c₁ c₂ : Nat} {n : Str} {σ0 : CState} {cn₁ cn₂ : Conn}
    {r₁ r₂ : Bool} {l : List Section} (hne : c₁ ≠ c₂)
    (h₁ : σ0.w.conn? c₁ = some cn₁) (ha₁ : cn₁.authenticated = false) (hp₁ : σ0.pc c₁ = .idle)
    (h₂ : σ0.w.conn? c₂ = some cn₂) (ha₂ : cn₂.authenticated = false) (hp₂ : σ0.pc c₂ = .idle)
    (hfree : Map.contains n σ0.w.users = false)
    (hd₁ : authDecision cfg (cn₁.setNick n) = .decided true r₁)
    (hd₂ : authDecision cfg (cn₂.setNick n) = .decided true r₂)
    (hs₁ : cn₁.hasSender = true ∧ cn₁.hasQuitSender = true)
    (hs₂ : cn₂.hasSender = true ∧ cn₂.hasQuitSender = true)
    (hl : l ∈ interleavings (nickSections c₁ n) (nickSections c₂ n)) :
    RaceOutcome cfg n σ0 c₁ c₂ cn₂ r₂ (runSections cfg l σ0) ∨
    RaceOutcome cfg n σ0 c₂ c₁ cn₁ r₁ (runSections cfg l σ0) := by
  rcases race_decompose ((mem_interleavings _ _ _).mp hl) with
    ⟨p0, p1, p2, hp, rfl⟩ | ⟨q0, q1, q2, hq, rfl⟩
  · left
    obtain ⟨a, b, c⟩ := race_last (cfg := cfg) hne h₁ ha₁ h₂ ha₂ hp₂ hfree hd₁ hd₂ hs₁.1 hs₁.2 hp
    exact ⟨a, b, by rw [b]; exact c⟩
  · right
    obtain ⟨a, b, c⟩ := race_last (cfg := cfg) hne.symm h₂ ha₂ h₁ ha₁ hp₁ hfree hd₂ hd₁ hs₂.1 hs₂.2 hq
    exact ⟨a, b, by rw [b]; exact c⟩

/-- what `RaceOutcome` means, spelled out: exactly one of the two ends up authenticated and owning
    `n`; the other one stays unauthenticated, does not own `n` and gets exactly one more line, a
    433; the winner's transcript and the SHARED state are those of the sequential execution in
    which the winner's whole command runs first. -/
theorem RaceOutcome.spelled_out {cfg : Cfg} {n : Str} {σ0 σ : CState} {cw cl : Nat} {cnl : Conn}
    {rl : Bool} (hne : cw ≠ cl) (hl : σ0.w.conn? cl = some cnl) (hal : cnl.authenticated = false)
    (h : RaceOutcome cfg n σ0 cw cl cnl rl σ) :
    let S := runSections cfg (nickSections cw n ++ nickSections cl n) σ0
    shared σ.w = shared S.w ∧ σ.sent = S.sent ∧
    (∃ u, Map.lookup n σ.w.users = some u ∧ u.owner = cw) ∧
    (∃ cn', σ.w.conn? cw = some cn' ∧ cn'.authenticated = true ∧ cn'.nick = some n) ∧
    σ.dir cw = S.dir cw ∧
    (∃ cn', σ.w.conn? cl = some cn' ∧ cn'.authenticated = false) ∧
    (∃ tok, σ.dir cl = σ0.dir cl ++ [srvLine cfg (ErrNicknameInUse433 tok n)]) ∧
    (∀ d, d ≠ cl → σ.w.conn? d = S.w.conn? d ∧ σ.dir d = S.dir d) ∧ σ.pc = S.pc := by
  intro S
  obtain ⟨hwon, hseq, hrun⟩ := h
  have hne' : cl ≠ cw := fun e => hne e.symm
  obtain ⟨hWl, _, hWdir⟩ := hwon.others cl hne'
  obtain ⟨u, hu, huo⟩ := hwon.owner
  obtain ⟨cnw, hcw, hcwa, hcwn⟩ := hwon.conn
  have hSW : S = (runSections cfg (nickSections cw n) σ0).addDir cl
      [srvLine cfg (ErrNicknameInUse433 cnl.clientName n)] := hseq
  generalize runSections cfg (nickSections cw n) σ0 = W at *
  have hidl : cnl.id = cl := conn?_id hl
  rcases hrun with e | e
  · have e' : σ = S := e
    rw [e', hSW]
    refine ⟨rfl, rfl, ⟨u, hu, huo⟩, ⟨cnw, hcw, hcwa, hcwn⟩, rfl, ⟨cnl, hWl.trans hl, hal⟩,
      ⟨cnl.clientName, ?_⟩, fun d _ => ⟨rfl, rfl⟩, rfl⟩
    simp [hWdir]
  · rw [e, hSW]
    have hc : (cornerConn cnl n rl).id = cl := hidl
    refine ⟨rfl, rfl, ⟨u, hu, huo⟩, ⟨cnw, ?_, hcwa, hcwn⟩, ?_,
      ⟨cornerConn cnl n rl, ?_, ?_⟩, ⟨n, ?_⟩, fun d hd => ⟨?_, ?_⟩, rfl⟩
    · show (W.w.setConn (cornerConn cnl n rl)).conn? cw = some cnw
      rw [conn?_setConn_ne _ _ _ (by rw [hc]; exact hne')]; exact hcw
    · simp [CState.addDir, hne]
    · show (W.w.setConn (cornerConn cnl n rl)).conn? cl = some _
      exact conn?_setConn_self _ (hWl.trans hl) hc
    · simp [cornerConn, Conn.setNick, Conn.updateSource, hal]
    · simp [hWdir]
    · show (W.w.setConn (cornerConn cnl n rl)).conn? d = W.w.conn? d
      exact conn?_setConn_ne _ _ _ (by rw [hc]; exact fun e => hd e.symm)
    · simp [CState.addDir, hd]

/-! ### the race on the demo world: all 20 interleavings, checked by the kernel -/

namespace Demo

/-- the outcome check of one run of the race for `a` between connections 1 and 2 -/
def raceOk (σ : CState) : Bool :=
  (Map.keys σ.w.users == [nickA]) &&
  ((authOf σ 1 && !authOf σ 2 && ownerOf σ nickA == some 1 &&
      (σ.dir 2 == [line433 (str "v")] || σ.dir 2 == [line433 nickA]) && (σ.dir 1).length == 18) ||
   (authOf σ 2 && !authOf σ 1 && ownerOf σ nickA == some 2 &&
      (σ.dir 1 == [line433 (str "u")] || σ.dir 1 == [line433 nickA]) && (σ.dir 2).length == 18))

end Demo

open Demo in
example : (interleavings (nickSections 1 nickA) (nickSections 2 nickA)).length = 20 := by decide
open Demo in
/-- in every one of the 20 interleavings exactly one connection registers as `a` and gets the
    18-line welcome burst, the other gets exactly one 433 -/
example : (interleavings (nickSections 1 nickA) (nickSections 2 nickA)).all
    (fun l => raceOk (runSections cfg l s0)) = true := by decide
open Demo in
-- both winners occur, and both kinds of 433 occur
example : ((interleavings (nickSections 1 nickA) (nickSections 2 nickA)).map
    (fun l => (authOf (runSections cfg l s0) 1, (runSections cfg l s0).dir 2 == [line433 nickA]))).eraseDups
    = [(true, false), (true, true), (false, false)] := by decide
open Demo in
-- the hypotheses of `one_winner` hold in the demo world
example : (s0.w.conn? 1).isSome ∧ (s0.w.conn? 2).isSome ∧ Map.contains nickA s0.w.users = false ∧
    authDecision cfg ((({ w := s0.w } : Ctx).conn 1).setNick nickA) = .decided true false ∧
    authDecision cfg ((({ w := s0.w } : Ctx).conn 2).setNick nickA) = .decided true false := by
  decide

/-! ## 4. serialisability of the unregistered NICK -/

/-- **serialisation point A1.**  `Early`: the connection is authenticated (the sections are no-ops),
    or the nick is taken when A1 runs, or the decision of A2 is not "good".  Then the interleaved
    run `A1 ; F ; A2 ; G ; A3` equals — world, counters, every reply buffer, every queue — the
    sequential run in which the whole command of `c` comes FIRST. -/
theorem serialisable_nick_first {cfg : Cfg} {c : Nat} {n : Str} {σ : CState} {cn : Conn}
    {F G : List Section} (hF : ∀ s ∈ F, SecIndep cfg c s) (hG : ∀ s ∈ G, SecIndep cfg c s)
    (h : σ.w.conn? c = some cn) (hpc : σ.pc c = .idle) (he : Early cfg n cn σ.w) :
    runSections cfg (nickInterleaved c n F G) σ = runSections cfg (nickSections c n ++ F ++ G) σ :=
  serial_first hF hG h hpc he

/-- **serialisation point A3.**  Not `Early` (nick free at A1, decision "good") and the nick is
    still free after `F ; G`: the interleaved run equals the sequential run in which the whole
    command of `c` comes LAST. -/
theorem serialisable_nick_last {cfg : Cfg} {c : Nat} {n : Str} {σ : CState} {cn : Conn}
    {F G : List Section} {r : Bool}
    (hF : ∀ s ∈ F, SecIndep cfg c s) (hG : ∀ s ∈ G, SecIndep cfg c s)
    (h : σ.w.conn? c = some cn) (ha : cn.authenticated = false)
    (ht : Map.contains n σ.w.users = false)
    (hd : authDecision cfg (cn.setNick n) = .decided true r)
    (ht2 : Map.contains n (runSections cfg (F ++ G) σ).w.users = false) :
    runSections cfg (nickInterleaved c n F G) σ = runSections cfg (F ++ G ++ nickSections c n) σ :=
  serial_last hF hG h ha ht hd ht2

/-- **the corner** (the exact remaining case): nick free at A1, decision "good", nick TAKEN after
    `F ; G`.  With `σ₂ = F ; G` from `σ`:
    * interleaved run  = `σ₂` with `c`'s record replaced by `cornerConn` and the line
      `433 <n> <n>` appended to `c`'s replies;
    * sequential run `F ; G ; c` = `σ₂` with the line `433 <old client name> <n>` appended.
    Nothing else differs. -/
theorem serialisable_nick_corner {cfg : Cfg} {c : Nat} {n : Str} {σ : CState} {cn : Conn}
    {F G : List Section} {r : Bool}
    (hF : ∀ s ∈ F, SecIndep cfg c s) (hG : ∀ s ∈ G, SecIndep cfg c s)
    (h : σ.w.conn? c = some cn) (hpc : σ.pc c = .idle) (ha : cn.authenticated = false)
    (ht : Map.contains n σ.w.users = false)
    (hd : authDecision cfg (cn.setNick n) = .decided true r)
    (ht2 : Map.contains n (runSections cfg (F ++ G) σ).w.users = true) :
    runSections cfg (nickInterleaved c n F G) σ =
      ((runSections cfg (F ++ G) σ).setConn (cornerConn cn n r)).addDir c
        [srvLine cfg (ErrNicknameInUse433 n n)] ∧
    runSections cfg (F ++ G ++ nickSections c n) σ =
      (runSections cfg (F ++ G) σ).addDir c [srvLine cfg (ErrNicknameInUse433 cn.clientName n)] :=
  serial_corner hF hG h hpc ha ht hd ht2

/-- the three cases are exhaustive -/
theorem serialisable_nick_cases (cfg : Cfg) (n : Str) (cn : Conn) (w w₂ : World) :
    Early cfg n cn w ∨
    (cn.authenticated = false ∧ Map.contains n w.users = false ∧
      ∃ r, authDecision cfg (cn.setNick n) = .decided true r ∧
        (Map.contains n w₂.users = false ∨ Map.contains n w₂.users = true)) := by
  cases ha : cn.authenticated with
  | true => exact .inl (.inl ha)
  | false =>
    cases ht : Map.contains n w.users with
    | true => exact .inl (.inr (.inl ht))
    | false =>
      cases hd : authDecision cfg (cn.setNick n) with
      | notReady => exact .inl (.inr (.inr (fun r e => by rw [hd] at e; cases e)))
      | maskMismatch => exact .inl (.inr (.inr (fun r e => by rw [hd] at e; cases e)))
      | decided good r =>
        cases good with
        | false => exact .inl (.inr (.inr (fun r e => by rw [hd] at e; cases e)))
        | true =>
          refine .inr ⟨rfl, rfl, r, rfl, ?_⟩
          cases Map.contains n w₂.users <;> simp

/-- how the record of the corner differs from the original one: only `nick`, `source` and
    `registered` (in particular it is still unauthenticated) -/
theorem cornerConn_differs (cn : Conn) (n : Str) (r : Bool) :
    cornerConn cn n r =
      { cn with nick := some n, source := (cn.setNick n).source, registered := r } := rfl

/-- **the shared state of the corner is the sequential one**: `users`, `channels`, counters,
    histories — everything but `conns` — and all queues, all other connections' records,
    counters and reply buffers agree; `c`'s own buffer differs in the client token of the last
    line only. -/
theorem serialisable_nick_corner_shared {cfg : Cfg} {c : Nat} {n : Str} {σ : CState} {cn : Conn}
    {F G : List Section} {r : Bool}
    (hF : ∀ s ∈ F, SecIndep cfg c s) (hG : ∀ s ∈ G, SecIndep cfg c s)
    (h : σ.w.conn? c = some cn) (hpc : σ.pc c = .idle) (ha : cn.authenticated = false)
    (ht : Map.contains n σ.w.users = false)
    (hd : authDecision cfg (cn.setNick n) = .decided true r)
    (ht2 : Map.contains n (runSections cfg (F ++ G) σ).w.users = true) :
    let I := runSections cfg (nickInterleaved c n F G) σ
    let S := runSections cfg (F ++ G ++ nickSections c n) σ
    shared I.w = shared S.w ∧ I.sent = S.sent ∧ I.pc = S.pc ∧
    (∀ d, d ≠ c → I.w.conn? d = S.w.conn? d ∧ I.dir d = S.dir d) ∧
    I.w.conn? c = some (cornerConn cn n r) ∧ S.w.conn? c = some cn ∧
    (∃ D, I.dir c = D ++ [srvLine cfg (ErrNicknameInUse433 n n)] ∧
          S.dir c = D ++ [srvLine cfg (ErrNicknameInUse433 cn.clientName n)]) := by
  intro I S
  obtain ⟨e1, e2⟩ := serial_corner hF hG h hpc ha ht hd ht2
  have hI : I = _ := e1
  have hS : S = _ := e2
  have h2 : (runSections cfg (F ++ G) σ).w.conn? c = some cn := by
    rw [runSections_append]
    exact ((indepT_run hG).conn_eq _).trans (((indepT_run hF).conn_eq _).trans h)
  rw [hI, hS]
  generalize runSections cfg (F ++ G) σ = σ₂ at *
  have hc0 : cn.id = c := conn?_id h
  have hc : (cornerConn cn n r).id = c := hc0
  refine ⟨rfl, rfl, rfl, fun d hd' => ⟨?_, ?_⟩, ?_, h2, ⟨σ₂.dir c, ?_, ?_⟩⟩
  · show (σ₂.w.setConn (cornerConn cn n r)).conn? d = σ₂.w.conn? d
    exact conn?_setConn_ne _ _ _ (by rw [hc]; exact fun e => hd' e.symm)
  · simp [CState.addDir, hd']
  · show (σ₂.w.setConn (cornerConn cn n r)).conn? c = some _
    exact conn?_setConn_self _ h2 hc
  · simp
  · simp

/-! ### the corner on the demo world: it happens, and it is not serialisable -/

namespace Demo
/-- connection 1: `A1 ; [all of connection 2's NICK a] ; A2 ; A3` -/
def cornerRun : CState := runSections cfg (nickInterleaved 1 nickA (nickSections 2 nickA) []) s0
/-- the two sequential executions of the same two commands -/
def seq12 : CState := runSections cfg (nickSections 1 nickA ++ nickSections 2 nickA) s0
def seq21 : CState := runSections cfg (nickSections 2 nickA ++ nickSections 1 nickA) s0
end Demo

open Demo in
/-- the corner: 2 wins, 1 is refused with client token `a` and keeps the nick `a` recorded -/
example : authOf cornerRun 2 = true ∧ authOf cornerRun 1 = false ∧
    cornerRun.dir 1 = [line433 nickA] ∧ nickOf cornerRun 1 = some nickA := by decide
set_option maxRecDepth 8192 in
open Demo in
/-- **`corner_not_serialisable`**: neither sequential order of the two commands gives connection 1
    this line and this record (in `seq21` it gets `433 u a` and records no nick; in `seq12` it
    wins) — while the shared state is the one of `seq21`. -/
example : seq21.dir 1 = [line433 (str "u")] ∧ nickOf seq21 1 = none ∧ authOf seq12 1 = true ∧
    cornerRun.dir 1 ≠ seq21.dir 1 ∧ cornerRun.dir 1 ≠ seq12.dir 1 ∧
    cornerRun.w.users = seq21.w.users ∧ cornerRun.w.channels = seq21.w.channels ∧
    cornerRun.dir 2 = seq21.dir 2 := by decide

namespace Demo
/-- the record of connection 1 before the race -/
def cn1 : Conn := ({ w := s0.w } : Ctx).conn 1
end Demo
open Demo in
example : s0.w.conn? 1 = some cn1 := by decide


set_option maxRecDepth 8192 in
open Demo in
/-- `serialisable_nick_corner` applies to the demo run -/
example : cornerRun = ((runSections cfg (nickSections 2 nickA ++ []) s0).setConn
      (cornerConn cn1 nickA false)).addDir 1 [srvLine cfg (ErrNicknameInUse433 nickA nickA)] :=
  (serialisable_nick_corner (cfg := cfg) (c := 1) (n := nickA) (σ := s0) (cn := cn1)
    (F := nickSections 2 nickA) (G := []) (r := false)
    (secIndep_nickSections cfg nickA (by decide)) (by simp)
    (by decide) (by decide) (by decide) (by decide) (by decide) (by decide)).1

set_option maxRecDepth 8192 in
open Demo in
/-- `serialisable_nick_last` applies when connection 2 registers another nick in between -/
example : runSections cfg (nickInterleaved 1 nickA (nickSections 2 (str "b")) []) s0 =
    runSections cfg (nickSections 2 (str "b") ++ [] ++ nickSections 1 nickA) s0 :=
  serialisable_nick_last (cfg := cfg) (c := 1) (n := nickA) (σ := s0) (cn := cn1)
    (F := nickSections 2 (str "b")) (G := []) (r := false)
    (secIndep_nickSections cfg (str "b") (by decide)) (by simp)
    (by decide) (by decide) (by decide) (by decide) (by decide)

set_option maxRecDepth 8192 in
open Demo in
/-- `serialisable_nick_first` applies when the nick is already taken at A1 -/
example : runSections cfg (nickInterleaved 1 nickA [.count 2 0] [.touch 2]) seq21 =
    runSections cfg (nickSections 1 nickA ++ [.count 2 0] ++ [.touch 2]) seq21 :=
  serialisable_nick_first (cfg := cfg) (c := 1) (n := nickA) (σ := seq21)
    (cn := ({ w := seq21.w } : Ctx).conn 1) (F := [.count 2 0]) (G := [.touch 2])
    (by intro s hs; simp at hs; subst hs; exact secIndep_count cfg 0 (by decide))
    (by intro s hs; simp at hs; subst hs; exact secIndep_touch cfg (by decide))
    (by decide) (by decide) (Or.inr (Or.inl (by decide)))

/-! ## 6. per-connection order of the output -/

/-- the direct replies of connection `d` produced section by section -/
def dirLines (cfg : Cfg) (d : Nat) : List Section → CState → List Str
  | [], _ => []
  | s :: ss, σ => (if s.conn = d then (sectionCtx cfg s σ).x.direct else []) ++
      dirLines cfg d ss (stepSection cfg s σ)

/-- the queue pushes produced section by section, tagged (sender, receiver) -/
def pushLines (cfg : Cfg) : List Section → CState → List (Nat × Nat × Str)
  | [], _ => []
  | s :: ss, σ => (sectionCtx cfg s σ).x.queued.map (fun p => (s.conn, p.1, p.2)) ++
      pushLines cfg ss (stepSection cfg s σ)

/-- what sender `s` pushes to receiver `d`, section by section -/
def pairLines (cfg : Cfg) (s d : Nat) : List Section → CState → List Str
  | [], _ => []
  | sec :: ss, σ =>
    (if sec.conn = s then ((sectionCtx cfg sec σ).x.queued.filter (·.1 == d)).map (·.2) else []) ++
      pairLines cfg s d ss (stepSection cfg sec σ)

/-- the sub-stream sender → receiver of the push log -/
def fromTo (s d : Nat) (sent : List (Nat × Nat × Str)) : List Str :=
  (sent.filter (fun e => e.1 == s && e.2.1 == d)).map (·.2.2)

/-- **replies in command order**: the reply buffer of `d` after a run is what it was, followed by
    the direct replies of `d`'s own sections in the order of the sections. -/
theorem per_conn_fifo_direct (cfg : Cfg) (d : Nat) (ss : List Section) (σ : CState) :
    (runSections cfg ss σ).dir d = σ.dir d ++ dirLines cfg d ss σ :=
  run_dir cfg d (dirLines cfg d) (fun _ => rfl) (fun _ _ _ => rfl) ss σ

/-- **queue pushes in section order** -/
theorem per_conn_fifo_sent (cfg : Cfg) (ss : List Section) (σ : CState) :
    (runSections cfg ss σ).sent = σ.sent ++ pushLines cfg ss σ := by
  induction ss generalizing σ with
  | nil => simp [runSections_nil, pushLines]
  | cons s ss ih =>
    rw [runSections_cons, ih, pushLines]
    simp [stepSection]

/-- **sender → receiver order**: what `d` receives from `s` is the concatenation, in the order of
    `s`'s sections, of what each of them pushed to `d` (in push order). -/
theorem per_conn_fifo_pair (cfg : Cfg) (s d : Nat) (ss : List Section) (σ : CState) :
    fromTo s d (runSections cfg ss σ).sent = fromTo s d σ.sent ++ pairLines cfg s d ss σ := by
  induction ss generalizing σ with
  | nil => simp [runSections_nil, pairLines]
  | cons sec ss ih =>
    rw [runSections_cons, ih, pairLines]
    have : fromTo s d (stepSection cfg sec σ).sent = fromTo s d σ.sent ++
        (if sec.conn = s then ((sectionCtx cfg sec σ).x.queued.filter (·.1 == d)).map (·.2)
         else []) := by
      simp only [stepSection, fromTo, List.filter_append, List.map_append, List.filter_map,
        List.map_map]
      congr 1
      by_cases h : sec.conn = s
      · simp only [h, ↓reduceIte]
        congr 1
        apply List.filter_congr
        intro p _
        simp
      · simp only [h, ↓reduceIte, List.map_eq_nil_iff, List.filter_eq_nil_iff]
        intro p _
        simp [h]
    rw [this, List.append_assoc]

/-- the receiver's whole queue, with the senders -/
theorem per_conn_fifo_queue (cfg : Cfg) (d : Nat) (ss : List Section) (σ : CState) :
    (runSections cfg ss σ).queueOf d = σ.queueOf d ++
      ((pushLines cfg ss σ).filter (fun e => e.2.1 == d)).map (fun e => (e.1, e.2.2)) := by
  simp [CState.queueOf, per_conn_fifo_sent]

/-- the transcript of `d` if every queued line were delivered at once: per section, `d`'s own
    direct replies, then what the section queued for `d` -/
def eagerTranscript (cfg : Cfg) (d : Nat) : List Section → CState → List Str
  | [], _ => []
  | s :: ss, σ =>
    ((if s.conn = d then (sectionCtx cfg s σ).x.direct else []) ++
      ((sectionCtx cfg s σ).x.queued.filter (·.1 == d)).map (·.2)) ++
    eagerTranscript cfg d ss (stepSection cfg s σ)

/-- the queue stream of `d` section by section -/
def queueLines (cfg : Cfg) (d : Nat) : List Section → CState → List Str
  | [], _ => []
  | s :: ss, σ => ((sectionCtx cfg s σ).x.queued.filter (·.1 == d)).map (·.2) ++
      queueLines cfg d ss (stepSection cfg s σ)

/-- **the transcript is order-preserving**: it is a merge of the two FIFO streams of `d` (replies,
    queue), each in section order.  (The real `select!` loop may deliver a queued line later than
    here, never earlier, and never reorders either stream — trusted.) -/
theorem per_conn_fifo (cfg : Cfg) (d : Nat) (ss : List Section) (σ : CState) :
    Interleave (dirLines cfg d ss σ) (queueLines cfg d ss σ) (eagerTranscript cfg d ss σ) := by
  induction ss generalizing σ with
  | nil => exact .nil
  | cons s ss ih =>
    simp only [dirLines, queueLines, eagerTranscript]
    exact Interleave.append (Interleave.concat _ _) (ih _)

open Demo in
-- a run with pushes: after the race, the winner (1) talks to itself and the loser retries
example : (runSections cfg [.whole 1 (str "PRIVMSG a :x"), .whole 1 (str "PRIVMSG a :y")]
    seq12).sent = [(1, 1, str ":a!~u@10.0.0.1 PRIVMSG a :x"), (1, 1, str ":a!~u@10.0.0.1 PRIVMSG a :y")] := by
  decide

/-! ## 5. one-section commands are atomic by construction -/

/-- the sequential model: whole commands one at a time -/
def seqWorld (cfg : Cfg) (cmds : List (Nat × Str)) (w : World) : World :=
  cmds.foldl (fun w p => (handleLine cfg p.1 p.2 { w := w }).w) w

def wholes (cmds : List (Nat × Str)) : List Section := cmds.map (fun p => .whole p.1 p.2)

/-- which commands are ONE section: everything but NICK / PASS / USER / CAP END of an
    unauthenticated connection, and PRIVMSG / NOTICE (whose second section is the identity) -/
theorem single_section (auth : Bool) (c : Nat) (line : Str) :
    splitCommand auth c line = [.whole c line] ∨
    splitCommand auth c line = [.whole c line, .touch c] ∨
    (auth = false ∧ ∃ msg cmd, Message.parse line = .ok msg ∧ Command.fromMessage msg = .ok cmd ∧
      allowedUnregistered cmd = true) := by
  unfold splitCommand
  split
  · rename_i msg hp
    split
    · rename_i cmd hc
      cases auth with
      | true => split <;> simp
      | false =>
        split
        · exact .inr (.inr ⟨rfl, msg, _, hp, hc, rfl⟩)
        · exact .inr (.inr ⟨rfl, msg, _, hp, hc, rfl⟩)
        · exact .inr (.inr ⟨rfl, msg, _, hp, hc, rfl⟩)
        · exact .inr (.inr ⟨rfl, msg, _, hp, hc, rfl⟩)
        · exact .inr (.inl rfl)
        · exact .inr (.inl rfl)
        · exact .inl rfl
    · exact .inl rfl
  · exact .inl rfl

/-- **`atomic_by_construction`**: a run that consists of one-section commands IS the sequential
    execution of these commands in the order of the sections. -/
theorem atomic_by_construction (cfg : Cfg) (cmds : List (Nat × Str)) (σ : CState) :
    (runSections cfg (wholes cmds) σ).w = seqWorld cfg cmds σ.w := by
  induction cmds generalizing σ with
  | nil => rfl
  | cons p cmds ih =>
    simp only [wholes, List.map_cons, runSections_cons, seqWorld, List.foldl_cons] at ih ⊢
    rw [ih]
    rfl

/-- every interleaving of two connections' one-section commands is the sequential execution of
    an interleaving of the COMMANDS (which keeps each connection's own order) -/
theorem atomic_interleaving (cfg : Cfg) (xs ys : List (Nat × Str)) (l : List Section)
    (σ : CState) (h : Interleave (wholes xs) (wholes ys) l) :
    ∃ cmds, Interleave xs ys cmds ∧ l = wholes cmds ∧
      (runSections cfg l σ).w = seqWorld cfg cmds σ.w := by
  have key : ∀ (a b l : List Section), Interleave a b l → ∀ xs ys, a = wholes xs → b = wholes ys →
      ∃ cmds, Interleave xs ys cmds ∧ l = wholes cmds := by
    intro a b l h
    induction h with
    | nil =>
      intro xs ys hx hy
      cases xs <;> cases ys <;> simp [wholes] at hx hy
      exact ⟨[], .nil, rfl⟩
    | left _ ih =>
      intro xs ys hx hy
      cases xs with
      | nil => simp [wholes] at hx
      | cons p xs =>
        simp only [wholes, List.map_cons, List.cons.injEq] at hx
        obtain ⟨cmds, hc, hl⟩ := ih xs ys hx.2 hy
        exact ⟨p :: cmds, .left hc, by simp [wholes, hx.1, hl]⟩
    | right _ ih =>
      intro xs ys hx hy
      cases ys with
      | nil => simp [wholes] at hy
      | cons p ys =>
        simp only [wholes, List.map_cons, List.cons.injEq] at hy
        obtain ⟨cmds, hc, hl⟩ := ih xs ys hx hy.2
        exact ⟨p :: cmds, .right hc, by simp [wholes, hy.1, hl]⟩
  obtain ⟨cmds, hc, hl⟩ := key _ _ _ h xs ys rfl rfl
  exact ⟨cmds, hc, hl, by rw [hl]; exact atomic_by_construction cfg cmds σ⟩

/-! ### corollaries over the sequential model: first JOIN, `+l` -/

/-- a sequence of JOIN commands `(connection, channels, keys)` in the sequential model -/
def runJoins (cfg : Cfg) (js : List (Nat × List Str × Option (List Str))) (w : World) : World :=
  js.foldl (fun w j => (processJoin cfg j.1 j.2.1 j.2.2 { w := w }).w) w

/-- one JOIN command (any channel list, duplicates included) keeps an existing `+l l` channel
    within its limit: the admission test `users.len() < l` is evaluated in the same section as
    the insertion.  A list naming the channel twice (`JOIN #a,#a`) evaluates both tests against
    the pre-state and inserts twice, but the second insertion of the same nick is idempotent
    (`Channel.addUser_idem'`), so the count grows by at most one. -/
theorem limit_never_exceeded_step {cfg : Cfg} {c : Nat} {chs : List Str} {keys : Option (List Str)}
    {x : Ctx} {ch : Str} {C0 : Channel} {l : Nat} (h0 : Map.lookup ch x.w.channels = some C0)
    (hl : C0.modes.clientLimit = some l) (hle : C0.users.length ≤ l) :
    ∃ C, Map.lookup ch (processJoin cfg c chs keys x).w.channels = some C ∧
      C.modes.clientLimit = some l ∧ C.users.length ≤ l := by
  obtain ⟨C, hC, hs⟩ := processJoin_existing (cfg := cfg) (c := c) (chs := chs) (keys := keys) h0
  refine ⟨C, hC, ?_⟩
  rcases hs with rfl | ⟨nick, _, hs⟩
  · exact ⟨hl, hle⟩
  · obtain ⟨e1, e2⟩ := hs.limit
    exact ⟨e1.trans hl, e2 l hl hle⟩

/-- **`limit_never_exceeded`**: after ANY sequence of JOIN commands by any connections, a channel
    with `+l l` that had at most `l` members still has the limit `l` and at most `l` members.
    (By `atomic_by_construction` this covers every interleaving of JOIN commands.) -/
theorem limit_never_exceeded (cfg : Cfg) (js : List (Nat × List Str × Option (List Str)))
    {w : World} {ch : Str} {C0 : Channel} {l : Nat} (h0 : Map.lookup ch w.channels = some C0)
    (hl : C0.modes.clientLimit = some l) (hle : C0.users.length ≤ l) :
    ∃ C, Map.lookup ch (runJoins cfg js w).channels = some C ∧
      C.modes.clientLimit = some l ∧ C.users.length ≤ l := by
  induction js generalizing w C0 with
  | nil => exact ⟨C0, h0, hl, hle⟩
  | cons j js ih =>
    obtain ⟨C1, h1, hl1, hle1⟩ := limit_never_exceeded_step (cfg := cfg) (c := j.1) (chs := j.2.1)
      (keys := j.2.2) (x := { w := w }) h0 hl hle
    exact ih h1 hl1 hle1

/-- the channel `JOIN` creates: the creator is its only member, founder and operator -/
theorem newOnUserJoin_founder (n : Str) :
    (Channel.newOnUserJoin n).users = [(n, ChanUserModes.createdChannel)] ∧
    (Channel.newOnUserJoin n).modes.founders = [n] ∧
    ChanUserModes.createdChannel.founder = true ∧ ChanUserModes.createdChannel.operator = true :=
  ⟨rfl, rfl, rfl, rfl⟩

/-- a second user joining the created channel is a plain member; the founder list is unchanged -/
theorem newOnUserJoin_addUser {n₁ n₂ : Str} (hne : n₁ ≠ n₂) :
    ((Channel.newOnUserJoin n₁).addUser n₂).users = [(n₁, ChanUserModes.createdChannel), (n₂, {})] ∧
    ((Channel.newOnUserJoin n₁).addUser n₂).modes.founders = [n₁] := by
  simp [Channel.newOnUserJoin, Channel.addUser, KSet.mem, Map.insert, hne]

/-- **`first_join_one_founder`**: two JOIN commands (any channel lists) of two different nicks,
    one after the other — by `atomic_by_construction` this is every interleaving, in either
    order — into a world where `ch` does not exist.  If `ch` exists afterwards then it is one of
    * created by the first, second absent (not listed / refused by the quota),
    * created by the first, second added as a plain member,
    * created by the second (the first did not create it);
    in every case exactly one creator with founder + operator, and never two founders. -/
theorem first_join_one_founder {cfg : Cfg} {c₁ c₂ : Nat} {chs₁ chs₂ : List Str}
    {k₁ k₂ : Option (List Str)} {w : World} {ch n₁ n₂ : Str}
    (h0 : Map.lookup ch w.channels = none)
    (hn₁ : (({ w := w } : Ctx).conn c₁).nick = some n₁)
    (hn₂ : (({ w := (processJoin cfg c₁ chs₁ k₁ { w := w }).w } : Ctx).conn c₂).nick = some n₂)
    {C : Channel}
    (hC : Map.lookup ch (processJoin cfg c₂ chs₂ k₂
      { w := (processJoin cfg c₁ chs₁ k₁ { w := w }).w }).w.channels = some C) :
    C = Channel.newOnUserJoin n₁ ∨ C = (Channel.newOnUserJoin n₁).addUser n₂ ∨
    C = Channel.newOnUserJoin n₂ := by
  cases h1 : Map.lookup ch (processJoin cfg c₁ chs₁ k₁ { w := w }).w.channels with
  | none =>
    obtain ⟨nick, hn, e⟩ := processJoin_absent
      (x := { w := (processJoin cfg c₁ chs₁ k₁ { w := w }).w }) h1 hC
    rw [hn₂] at hn; cases hn
    exact .inr (.inr e)
  | some C1 =>
    obtain ⟨nick, hn, e1⟩ := processJoin_absent h0 h1
    rw [hn₁] at hn; cases hn
    obtain ⟨C', hC', hs⟩ := processJoin_existing (cfg := cfg) (c := c₂) (chs := chs₂) (keys := k₂)
      (x := { w := (processJoin cfg c₁ chs₁ k₁ { w := w }).w }) h1
    rw [hC] at hC'; cases hC'
    rcases hs with rfl | ⟨nick, hn, hs⟩
    · exact .inl e1
    · rw [hn₂] at hn; cases hn
      rcases hs with rfl | ⟨_, _, rfl⟩
      · exact .inl e1
      · exact .inr (.inl (by rw [e1]))

/-- in each of the three outcomes there is exactly one founder, the creator -/
theorem first_join_one_founder' {C : Channel} {n₁ n₂ : Str} (hne : n₁ ≠ n₂)
    (h : C = Channel.newOnUserJoin n₁ ∨ C = (Channel.newOnUserJoin n₁).addUser n₂ ∨
      C = Channel.newOnUserJoin n₂) :
    ∃ creator, (creator = n₁ ∨ creator = n₂) ∧ C.modes.founders = [creator] ∧
      Map.lookup creator C.users = some ChanUserModes.createdChannel ∧
      ∀ m f, Map.lookup m C.users = some f → f.founder = true → m = creator := by
  rcases h with rfl | rfl | rfl
  · refine ⟨n₁, .inl rfl, rfl, by simp [Channel.newOnUserJoin, Map.lookup], ?_⟩
    intro m f hm hf
    simp only [Channel.newOnUserJoin, Map.lookup] at hm
    split at hm
    · rename_i e; exact e.symm
    · cases hm
  · obtain ⟨hu, hf⟩ := newOnUserJoin_addUser hne
    refine ⟨n₁, .inl rfl, hf, by rw [hu]; simp [Map.lookup], ?_⟩
    intro m f hm hfl
    rw [hu] at hm
    simp only [Map.lookup] at hm
    split at hm
    · rename_i e; exact e.symm
    · split at hm
      · cases hm; cases hfl
      · cases hm
  · refine ⟨n₂, .inr rfl, rfl, by simp [Channel.newOnUserJoin, Map.lookup], ?_⟩
    intro m f hm hf
    simp only [Channel.newOnUserJoin, Map.lookup] at hm
    split at hm
    · rename_i e; exact e.symm
    · cases hm

namespace Demo
/-- `a`, `b`, `c` registered on connections 1, 2, 3; `a` founded `#l` and set `+l 2` -/
def jw : World := run cfg [.connect 1 ip, .line 1 (str "NICK a"), .line 1 (str "USER a 0 * :A"),
  .connect 2 ip, .line 2 (str "NICK b"), .line 2 (str "USER b 0 * :B"),
  .connect 3 ip, .line 3 (str "NICK c"), .line 3 (str "USER c 0 * :C"),
  .line 1 (str "JOIN #l"), .line 1 (str "MODE #l +l 2")]
def chanView (w : World) (ch : Str) : Option (Option Nat × KSet × List (Str × Bool)) :=
  (Map.lookup ch w.channels).map (fun C =>
    (C.modes.clientLimit, C.modes.founders, C.users.map (fun p => (p.1, p.2.founder))))
end Demo

set_option maxRecDepth 8192 in
open Demo in
-- `+l 2`, one member: `JOIN #l,#l` by `b` passes both tests against the pre-state, inserts twice,
-- counts once; `c` is then refused with 471
example : chanView jw (str "#l") = some (some 2, [str "a"], [(str "a", true)]) := by decide
set_option maxRecDepth 8192 in
open Demo in
example : chanView (seqWorld cfg [(2, str "JOIN #l,#l"), (3, str "JOIN #l")] jw) (str "#l") =
    some (some 2, [str "a"], [(str "a", true), (str "b", false)]) := by decide
set_option maxRecDepth 8192 in
open Demo in
example : (handleLine cfg 3 (str "JOIN #l") { w := seqWorld cfg [(2, str "JOIN #l,#l")] jw }).direct =
    [(str ":irc.irc " ++ Reply.ErrChannelIsFull471 (client := str "c") (channel := str "#l"))] := by decide

set_option maxRecDepth 8192 in
open Demo in
-- two first JOINs of `#n`, both orders: one channel, one founder (whoever came first)
example : chanView (seqWorld cfg [(2, str "JOIN #n"), (3, str "JOIN #n")] jw) (str "#n") =
    some (none, [str "b"], [(str "b", true), (str "c", false)]) := by decide
set_option maxRecDepth 8192 in
open Demo in
example : chanView (seqWorld cfg [(3, str "JOIN #n"), (2, str "JOIN #n")] jw) (str "#n") =
    some (none, [str "c"], [(str "c", true), (str "b", false)]) := by decide

/-! ## 7. the server keeps answering -/

/-- every section is a total function of the state (there is no blocked configuration in the
    semantics: any schedule can be extended by any section of any connection), and `PING` is
    answered in EVERY state, whatever the other connections are in the middle of -/
theorem always_answered (cfg : Cfg) (c : Nat) (msg : Message) (t : Str) (x : Ctx) :
    (dispatch cfg c msg (.PING t) x).direct =
      x.direct ++ [srvLine cfg (str "PONG " ++ cfg.name ++ str " :" ++ t)] ∧
    (dispatch cfg c msg (.PING t) x).w = x.w := ⟨rfl, rfl⟩

set_option maxRecDepth 8192 in
open Demo in
-- in the middle of the race (1 between A2 and A3, 2 between A1 and A2) the winner-to-be of an
-- earlier registration … here: connection 2, registered first, is answered at once
example : (runSections cfg [.nickCheck 1 nickA, .authDecide 1, .whole 2 (str "PING x")]
    seq21).dir 2 = seq21.dir 2 ++ [str ":irc.irc PONG irc.irc :x"] := by decide

end Irc.C18
