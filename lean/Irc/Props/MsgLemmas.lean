/-
  Helper lemmas shared by the properties C01 and C10 (PRIVMSG / NOTICE):
  `dedup`, `ChannelModes.banned`, folds of `sendDisplay`, `privmsgTarget`,
  `processPrivmsgNotice`.
-/
import Irc.HRest
import Irc.Inv
import Irc.InvCheck
import Irc.Lemmas.Map
import Irc.Lemmas.Frame
import Irc.Props.C14

namespace Irc.Msg
open Irc Irc.Reply

/-! ### dedup -/

theorem mem_dedup (a : Str) (l : List Str) : a ∈ dedup l ↔ a ∈ l := by
  induction l with
  | nil => simp [dedup]
  | cons x xs ih =>
    simp only [dedup, List.mem_cons, List.mem_filter, ih, bne_iff_ne, ne_eq]
    by_cases h : a = x <;> simp [h]

theorem dedup_nodup (l : List Str) : (dedup l).Nodup := by
  induction l with
  | nil => simp [dedup]
  | cons x xs ih =>
    simp only [dedup, List.nodup_cons, List.mem_filter, bne_self_eq_false, Bool.false_eq_true,
      and_false, not_false_eq_true, true_and]
    exact ih.filter _

/-- a list without repetitions is left alone -/
theorem dedup_of_nodup (l : List Str) (h : l.Nodup) : dedup l = l := by
  induction l with
  | nil => rfl
  | cons x xs ih =>
    rw [List.nodup_cons] at h
    simp only [dedup, ih h.2, List.cons.injEq, true_and]
    rw [List.filter_eq_self]
    intro a ha
    simp only [bne_iff_ne, ne_eq]
    rintro rfl; exact h.1 ha

/-! ### string literals -/

theorem str_colon : str ":" = [':'] := by decide
theorem str_sp : str " " = [' '] := by decide
theorem str_sp_colon : str " :" = [' ', ':'] := by decide
theorem str_sp404 : str " 404 " = ' ' :: str "404 " := by decide
theorem str_sp403 : str " 403 " = ' ' :: str "403 " := by decide
theorem str_sp401 : str " 401 " = ' ' :: str "401 " := by decide
theorem str_sp301 : str " 301 " = ' ' :: str "301 " := by decide
theorem str_spNOTICE : str " NOTICE " = ' ' :: str "NOTICE " := by decide
theorem str_spPRIVMSG : str " PRIVMSG " = ' ' :: str "PRIVMSG " := by decide

/-! ### banned -/

theorem banned_iff (m : ChannelModes) (s : Str) :
    m.banned s = true ↔
      (∃ b ∈ m.ban, glob b s = true) ∧ ¬ ∃ e ∈ m.exception, glob e s = true := by
  simp [ChannelModes.banned, C14.matchWildcard_eq_glob]

/-! ### worlds that differ at most in the panic flag -/

/-- `w'` has the same data as `w` (everything except `panicked`). -/
structure SameData (w w' : World) : Prop where
  users : w'.users = w.users
  channels : w'.channels = w.channels
  wallops : w'.wallops = w.wallops
  invisibleCount : w'.invisibleCount = w.invisibleCount
  operatorsCount : w'.operatorsCount = w.operatorsCount
  maxUsers : w'.maxUsers = w.maxUsers
  histories : w'.histories = w.histories
  conns : w'.conns = w.conns
  connsCount : w'.connsCount = w.connsCount
  srvQuit : w'.srvQuit = w.srvQuit
  cmdCounts : w'.cmdCounts = w.cmdCounts

theorem SameData.refl (w : World) : SameData w w := ⟨rfl, rfl, rfl, rfl, rfl, rfl, rfl, rfl, rfl, rfl, rfl⟩

theorem SameData.trans {a b c : World} (h1 : SameData a b) (h2 : SameData b c) : SameData a c :=
  ⟨h2.users.trans h1.users, h2.channels.trans h1.channels, h2.wallops.trans h1.wallops,
   h2.invisibleCount.trans h1.invisibleCount, h2.operatorsCount.trans h1.operatorsCount,
   h2.maxUsers.trans h1.maxUsers, h2.histories.trans h1.histories, h2.conns.trans h1.conns,
   h2.connsCount.trans h1.connsCount, h2.srvQuit.trans h1.srvQuit, h2.cmdCounts.trans h1.cmdCounts⟩

theorem SameData.panic (w : World) (s : String) : SameData w (w.panic s) :=
  ⟨rfl, rfl, rfl, rfl, rfl, rfl, rfl, rfl, rfl, rfl, rfl⟩

theorem SameData.conn {w w' : World} (h : SameData w w') (c : Nat) : w'.conn? c = w.conn? c := by
  unfold World.conn?; rw [h.conns]

theorem sameData_send (x : Ctx) (n line : Str) : SameData x.w (x.send n line).w := by
  rcases Ctx.send_w_cases x n line with h | ⟨_, h⟩
  · rw [h]; exact SameData.refl _
  · rw [h]; exact SameData.panic _ _

theorem ctx_conn_congr {x y : Ctx} (h : SameData x.w y.w) (c : Nat) : y.conn c = x.conn c := by
  unfold Ctx.conn; rw [h.conn]

/-! ### queuing one line to a list of nicks -/

/-- the entries pushed when `line` is sent to the nicks `ns` (a nick without a user gets
    nothing; the model then sets the panic flag). -/
def deliver (w : World) (line : Str) (ns : List Str) : List (Nat × Str) :=
  ns.filterMap (fun n => (Map.lookup n w.users).map (fun u => (u.owner, line)))

theorem deliver_nil (w : World) (line : Str) : deliver w line [] = [] := rfl

theorem deliver_cons (w : World) (line n : Str) (ns : List Str) :
    deliver w line (n :: ns) = deliver w line [n] ++ deliver w line ns := by
  simp only [deliver, List.filterMap_cons, List.filterMap_nil]
  cases Map.lookup n w.users <;> simp

theorem deliver_congr {w w' : World} (h : w'.users = w.users) (line : Str) (ns : List Str) :
    deliver w' line ns = deliver w line ns := by
  unfold deliver; rw [h]

theorem deliver_single_some {w : World} {n : Str} {u : User} (h : Map.lookup n w.users = some u)
    (line : Str) : deliver w line [n] = [(u.owner, line)] := by
  simp [deliver, h]

theorem deliver_single_none {w : World} {n : Str} (h : Map.lookup n w.users = none)
    (line : Str) : deliver w line [n] = [] := by
  simp [deliver, h]

theorem send_queued (x : Ctx) (n line : Str) :
    (x.send n line).queued = x.queued ++ deliver x.w line [n] := by
  unfold Ctx.send
  cases h : Map.lookup n x.w.users with
  | none => simp [deliver, h]
  | some u => simp [deliver, h]

theorem send_w_of_known (x : Ctx) (n line : Str) (h : Map.contains n x.w.users = true) :
    (x.send n line).w = x.w := by
  obtain ⟨u, hu⟩ := (Map.contains_iff _ _).mp h
  rw [Ctx.send_w_of_lookup x n line hu]

section fold
variable (src t : Str)

theorem foldl_send_sameData (ns : List Str) (x : Ctx) :
    SameData x.w (ns.foldl (fun x u => x.sendDisplay u src t) x).w := by
  induction ns generalizing x with
  | nil => exact SameData.refl _
  | cons n ns ih =>
    simp only [List.foldl_cons]
    exact (sameData_send x n _).trans (ih _)

theorem foldl_send_direct (ns : List Str) (x : Ctx) :
    (ns.foldl (fun x u => x.sendDisplay u src t) x).direct = x.direct := by
  induction ns generalizing x with
  | nil => rfl
  | cons n ns ih => simp only [List.foldl_cons]; rw [ih]; simp

theorem foldl_send_queued (ns : List Str) (x : Ctx) :
    (ns.foldl (fun x u => x.sendDisplay u src t) x).queued
      = x.queued ++ deliver x.w (':' :: (src ++ ' ' :: t)) ns := by
  induction ns generalizing x with
  | nil => simp [deliver]
  | cons n ns ih =>
    simp only [List.foldl_cons]
    rw [ih, deliver_cons x.w _ n ns, Ctx.sendDisplay, send_queued, List.append_assoc]
    congr 2
    exact deliver_congr (Ctx.send_users x n _) _ _

theorem foldl_send_w_of_known (ns : List Str) (x : Ctx)
    (h : ∀ n ∈ ns, Map.contains n x.w.users = true) :
    (ns.foldl (fun x u => x.sendDisplay u src t) x).w = x.w := by
  induction ns generalizing x with
  | nil => rfl
  | cons n ns ih =>
    simp only [List.foldl_cons]
    have h1 : (x.sendDisplay n src t).w = x.w :=
      send_w_of_known x n _ (h n List.mem_cons_self)
    rw [ih, h1]
    intro m hm; rw [h1]; exact h m (List.mem_cons_of_mem _ hm)

end fold

/-- with every nick known, `deliver` is a plain `map` -/
theorem deliver_eq_map (w : World) (line : Str) (ns : List Str) (owner : Str → Nat)
    (h : ∀ n ∈ ns, ∃ u, Map.lookup n w.users = some u ∧ u.owner = owner n) :
    deliver w line ns = ns.map (fun n => (owner n, line)) := by
  induction ns with
  | nil => rfl
  | cons n ns ih =>
    rw [deliver_cons, ih (fun m hm => h m (List.mem_cons_of_mem _ hm))]
    obtain ⟨u, hu, ho⟩ := h n List.mem_cons_self
    rw [deliver_single_some hu, ho]; rfl

/-! ### the five outcomes of `privmsgTarget` -/

/-- the command text relayed to the recipients -/
def msgBody (notice : Bool) (target text : Str) : Str :=
  (if notice then str "NOTICE " else str "PRIVMSG ") ++ target ++ str " :" ++ text

/-- the recipient list of a status-prefixed / plain channel target -/
def chanRcpts (tt : TargetType) (ch : Channel) (nick : Str) : List Str :=
  if (tt.founder || tt.prot || tt.oper || tt.halfOper || tt.voice) = true
  then specialRecipients tt ch nick
  else (Map.keys ch.users).filter (· != nick)

section cases
variable (cfg : Cfg) (c : Nat) (nick : Str) (notice : Bool) (text target : Str) (x : Ctx)

theorem privmsgTarget_chan_ok {ch : Channel}
    (hc : (getPrivmsgTargetType target).1.channel = true)
    (hl : Map.lookup (getPrivmsgTargetType target).2 x.w.channels = some ch)
    (hs : canSend ch nick (x.conn c).source = true) :
    privmsgTarget cfg c nick notice text target x =
      ((chanRcpts (getPrivmsgTargetType target).1 ch nick).foldl
        (fun y u => y.sendDisplay u (x.conn c).source (msgBody notice target text)) x, true) := by
  unfold privmsgTarget
  simp only [hc, hl, hs, if_true, chanRcpts, msgBody]

theorem privmsgTarget_chan_rejected {ch : Channel}
    (hc : (getPrivmsgTargetType target).1.channel = true)
    (hl : Map.lookup (getPrivmsgTargetType target).2 x.w.channels = some ch)
    (hs : canSend ch nick (x.conn c).source = false) :
    privmsgTarget cfg c nick notice text target x =
      (if notice = true then x
       else x.reply cfg (ErrCannotSendToChain404 (x.conn c).clientName (getPrivmsgTargetType target).2),
       false) := by
  unfold privmsgTarget
  cases notice <;> simp [hc, hl, hs]

theorem privmsgTarget_chan_missing
    (hc : (getPrivmsgTargetType target).1.channel = true)
    (hl : Map.lookup (getPrivmsgTargetType target).2 x.w.channels = none) :
    privmsgTarget cfg c nick notice text target x =
      (if notice = true then x
       else x.reply cfg (ErrNoSuchChannel403 (x.conn c).clientName (getPrivmsgTargetType target).2),
       false) := by
  unfold privmsgTarget
  cases notice <;> simp [hc, hl]

theorem privmsgTarget_nick_ok {u : User}
    (hc : (getPrivmsgTargetType target).1.channel = false)
    (hl : Map.lookup target x.w.users = some u) :
    privmsgTarget cfg c nick notice text target x =
      (let y := x.sendDisplay target (x.conn c).source (msgBody notice target text)
       if notice = true then y
       else match u.away with
         | some a => y.reply cfg (RplAway301 (x.conn c).clientName target a)
         | none => y,
       true) := by
  unfold privmsgTarget
  cases notice <;> simp [hc, hl, msgBody]
  cases u.away <;> rfl

theorem privmsgTarget_nick_missing
    (hc : (getPrivmsgTargetType target).1.channel = false)
    (hl : Map.lookup target x.w.users = none) :
    privmsgTarget cfg c nick notice text target x =
      (if notice = true then x
       else x.reply cfg (ErrNoSuchNick401 (x.conn c).clientName target),
       false) := by
  unfold privmsgTarget
  cases notice <;> simp [hc, hl]

/-- the nicks `privmsgTarget` sends to -/
def rcptsOf (w : World) (nick source target : Str) : List Str :=
  if (getPrivmsgTargetType target).1.channel = true then
    match Map.lookup (getPrivmsgTargetType target).2 w.channels with
    | some ch =>
      if canSend ch nick source = true then chanRcpts (getPrivmsgTargetType target).1 ch nick
      else []
    | none => []
  else [target]

theorem rcptsOf_congr {w w' : World} (h : SameData w w') (nick source target : Str) :
    rcptsOf w' nick source target = rcptsOf w nick source target := by
  unfold rcptsOf; rw [h.channels]

/-- the relayed line -/
def msgLine (source : Str) (notice : Bool) (target text : Str) : Str :=
  ':' :: (source ++ ' ' :: msgBody notice target text)

theorem msgLine_eq (source : Str) (notice : Bool) (target text : Str) :
    msgLine source notice target text =
      str ":" ++ source ++ (if notice = true then str " NOTICE " else str " PRIVMSG ") ++ target ++
        str " :" ++ text := by
  cases notice <;> simp [msgLine, msgBody, str_colon, str_spNOTICE, str_spPRIVMSG]

theorem privmsgTarget_sameData : SameData x.w (privmsgTarget cfg c nick notice text target x).1.w := by
  by_cases hc : (getPrivmsgTargetType target).1.channel = true
  · cases hl : Map.lookup (getPrivmsgTargetType target).2 x.w.channels with
    | none =>
      rw [privmsgTarget_chan_missing cfg c nick notice text target x hc hl]
      cases notice <;> exact SameData.refl _
    | some ch =>
      by_cases hs : canSend ch nick (x.conn c).source = true
      · rw [privmsgTarget_chan_ok cfg c nick notice text target x hc hl hs]
        exact foldl_send_sameData _ _ _ _
      · rw [privmsgTarget_chan_rejected cfg c nick notice text target x hc hl (by simpa using hs)]
        cases notice <;> exact SameData.refl _
  · have hc' : (getPrivmsgTargetType target).1.channel = false := by simpa using hc
    cases hl : Map.lookup target x.w.users with
    | none =>
      rw [privmsgTarget_nick_missing cfg c nick notice text target x hc' hl]
      cases notice <;> exact SameData.refl _
    | some u =>
      rw [privmsgTarget_nick_ok cfg c nick notice text target x hc' hl]
      cases notice
      · cases u.away <;> exact sameData_send _ _ _
      · exact sameData_send _ _ _

theorem privmsgTarget_notice_direct :
    (privmsgTarget cfg c nick true text target x).1.direct = x.direct := by
  by_cases hc : (getPrivmsgTargetType target).1.channel = true
  · cases hl : Map.lookup (getPrivmsgTargetType target).2 x.w.channels with
    | none => rw [privmsgTarget_chan_missing cfg c nick true text target x hc hl]; rfl
    | some ch =>
      by_cases hs : canSend ch nick (x.conn c).source = true
      · rw [privmsgTarget_chan_ok cfg c nick true text target x hc hl hs]
        exact foldl_send_direct _ _ _ _
      · rw [privmsgTarget_chan_rejected cfg c nick true text target x hc hl (by simpa using hs)]; rfl
  · have hc' : (getPrivmsgTargetType target).1.channel = false := by simpa using hc
    cases hl : Map.lookup target x.w.users with
    | none => rw [privmsgTarget_nick_missing cfg c nick true text target x hc' hl]; rfl
    | some u =>
      rw [privmsgTarget_nick_ok cfg c nick true text target x hc' hl]
      simp

theorem privmsgTarget_queued :
    (privmsgTarget cfg c nick notice text target x).1.queued =
      x.queued ++ deliver x.w (msgLine (x.conn c).source notice target text)
        (rcptsOf x.w nick (x.conn c).source target) := by
  unfold rcptsOf
  by_cases hc : (getPrivmsgTargetType target).1.channel = true
  · cases hl : Map.lookup (getPrivmsgTargetType target).2 x.w.channels with
    | none =>
      rw [privmsgTarget_chan_missing cfg c nick notice text target x hc hl]
      cases notice <;> simp [hc, deliver]
    | some ch =>
      by_cases hs : canSend ch nick (x.conn c).source = true
      · rw [privmsgTarget_chan_ok cfg c nick notice text target x hc hl hs]
        simp only [hc, hs, if_true]
        exact foldl_send_queued _ _ _ _
      · rw [privmsgTarget_chan_rejected cfg c nick notice text target x hc hl (by simpa using hs)]
        cases notice <;> simp [hc, hs, deliver]
  · have hc' : (getPrivmsgTargetType target).1.channel = false := by simpa using hc
    cases hl : Map.lookup target x.w.users with
    | none =>
      rw [privmsgTarget_nick_missing cfg c nick notice text target x hc' hl]
      cases notice <;> simp [hc', deliver, hl]
    | some u =>
      rw [privmsgTarget_nick_ok cfg c nick notice text target x hc' hl]
      simp only [hc', Bool.false_eq_true, if_false]
      cases notice
      · cases u.away <;> simp [Ctx.sendDisplay, send_queued, msgLine]
      · simp [Ctx.sendDisplay, send_queued, msgLine]

/-- the lines `privmsgTarget` writes to the sender for a PRIVMSG -/
def repliesOf (cfg : Cfg) (w : World) (client nick source target : Str) : List Str :=
  if (getPrivmsgTargetType target).1.channel = true then
    match Map.lookup (getPrivmsgTargetType target).2 w.channels with
    | some ch =>
      if canSend ch nick source = true then []
      else [':' :: (cfg.name ++ ' ' :: ErrCannotSendToChain404 client (getPrivmsgTargetType target).2)]
    | none => [':' :: (cfg.name ++ ' ' :: ErrNoSuchChannel403 client (getPrivmsgTargetType target).2)]
  else
    match Map.lookup target w.users with
    | some u =>
      (match u.away with
       | some a => [':' :: (cfg.name ++ ' ' :: RplAway301 client target a)]
       | none => [])
    | none => [':' :: (cfg.name ++ ' ' :: ErrNoSuchNick401 client target)]

theorem repliesOf_congr {w w' : World} (h : SameData w w') (cfg : Cfg) (client nick source target : Str) :
    repliesOf cfg w' client nick source target = repliesOf cfg w client nick source target := by
  unfold repliesOf; rw [h.channels, h.users]

theorem privmsgTarget_privmsg_direct :
    (privmsgTarget cfg c nick false text target x).1.direct =
      x.direct ++ repliesOf cfg x.w (x.conn c).clientName nick (x.conn c).source target := by
  unfold repliesOf
  by_cases hc : (getPrivmsgTargetType target).1.channel = true
  · cases hl : Map.lookup (getPrivmsgTargetType target).2 x.w.channels with
    | none =>
      rw [privmsgTarget_chan_missing cfg c nick false text target x hc hl]
      simp [hc]
    | some ch =>
      by_cases hs : canSend ch nick (x.conn c).source = true
      · rw [privmsgTarget_chan_ok cfg c nick false text target x hc hl hs]
        simp only [hc, hs, if_true, List.append_nil]
        exact foldl_send_direct _ _ _ _
      · rw [privmsgTarget_chan_rejected cfg c nick false text target x hc hl (by simpa using hs)]
        simp [hc, hs]
  · have hc' : (getPrivmsgTargetType target).1.channel = false := by simpa using hc
    cases hl : Map.lookup target x.w.users with
    | none =>
      rw [privmsgTarget_nick_missing cfg c nick false text target x hc' hl]
      simp [hc']
    | some u =>
      rw [privmsgTarget_nick_ok cfg c nick false text target x hc' hl]
      simp only [hc', Bool.false_eq_true, if_false]
      cases u.away <;> simp

end cases

/-! ### the fold of `processPrivmsgNotice` -/

section fold2
variable (cfg : Cfg) (c : Nat) (nick : Str) (notice : Bool) (text : Str)

/-- one step of the fold over the distinct targets -/
def pmStep (p : Ctx × Bool) (t : Str) : Ctx × Bool :=
  ((privmsgTarget cfg c nick notice text t p.1).1, p.2 || (privmsgTarget cfg c nick notice text t p.1).2)

theorem processPrivmsgNotice_eq (targets : List Str) (x : Ctx) :
    processPrivmsgNotice cfg c targets text notice x =
      match (x.conn c).nick with
      | none => x.panic "privmsg: own nick unwrap"
      | some nick =>
        let r := (dedup targets).foldl (pmStep cfg c nick notice text) (x, false)
        if (r.2 && !(Map.contains nick r.1.w.users)) = true
        then r.1.panic "privmsg: users.get_mut(nick).unwrap" else r.1 := by
  rfl

theorem pmFold_inv (P : Ctx → Prop)
    (h : ∀ t y, P y → P (privmsgTarget cfg c nick notice text t y).1)
    (ts : List Str) (p : Ctx × Bool) (hp : P p.1) :
    P (ts.foldl (pmStep cfg c nick notice text) p).1 := by
  induction ts generalizing p with
  | nil => exact hp
  | cons t ts ih => exact ih _ (h t p.1 hp)

theorem pmFold_sameData (ts : List Str) (p : Ctx × Bool) :
    SameData p.1.w (ts.foldl (pmStep cfg c nick notice text) p).1.w :=
  pmFold_inv cfg c nick notice text (fun y => SameData p.1.w y.w)
    (fun t y hy => hy.trans (privmsgTarget_sameData cfg c nick notice text t y)) ts p (SameData.refl _)

theorem pmFold_notice_direct (ts : List Str) (p : Ctx × Bool) :
    (ts.foldl (pmStep cfg c nick true text) p).1.direct = p.1.direct :=
  pmFold_inv cfg c nick true text (fun y => y.direct = p.1.direct)
    (fun t y hy => (privmsgTarget_notice_direct cfg c nick text t y).trans hy) ts p rfl

theorem pmFold_privmsg_direct (ts : List Str) (p : Ctx × Bool) :
    (ts.foldl (pmStep cfg c nick false text) p).1.direct =
      p.1.direct ++ ts.flatMap (fun t =>
        repliesOf cfg p.1.w (p.1.conn c).clientName nick (p.1.conn c).source t) := by
  induction ts generalizing p with
  | nil => simp
  | cons t ts ih =>
    simp only [List.foldl_cons, List.flatMap_cons]
    rw [ih]
    have hsd : SameData p.1.w (pmStep cfg c nick false text p t).1.w :=
      privmsgTarget_sameData cfg c nick false text t p.1
    have hq : (pmStep cfg c nick false text p t).1.direct = _ :=
      privmsgTarget_privmsg_direct cfg c nick text t p.1
    rw [hq, List.append_assoc]
    congr 2
    simp only [ctx_conn_congr hsd, repliesOf_congr hsd]

theorem pmFold_queued (ts : List Str) (p : Ctx × Bool) :
    (ts.foldl (pmStep cfg c nick notice text) p).1.queued =
      p.1.queued ++ ts.flatMap (fun t =>
        deliver p.1.w (msgLine (p.1.conn c).source notice t text)
          (rcptsOf p.1.w nick (p.1.conn c).source t)) := by
  induction ts generalizing p with
  | nil => simp
  | cons t ts ih =>
    simp only [List.foldl_cons, List.flatMap_cons]
    rw [ih]
    have hsd : SameData p.1.w (pmStep cfg c nick notice text p t).1.w :=
      privmsgTarget_sameData cfg c nick notice text t p.1
    have hq : (pmStep cfg c nick notice text p t).1.queued = _ :=
      privmsgTarget_queued cfg c nick notice text t p.1
    rw [hq, List.append_assoc]
    congr 2
    simp only [ctx_conn_congr hsd, rcptsOf_congr hsd, deliver_congr hsd.users]

end fold2

/-! ### recipients of a channel target -/

theorem mem_ite_list (b : Bool) (l : List Str) (n : Str) :
    n ∈ (if b = true then l else []) ↔ b = true ∧ n ∈ l := by
  cases b <;> simp

theorem mem_plainRcpts (C : Channel) (nick n : Str) :
    n ∈ (Map.keys C.users).filter (· != nick) ↔
      (∃ m, Map.lookup n C.users = some m) ∧ n ≠ nick := by
  simp only [List.mem_filter, Map.mem_keys_iff, bne_iff_ne, ne_eq]

theorem mem_specialRecipients (tt : TargetType) (C : Channel) (nick : Str) (h : RankMirror C)
    (n : Str) :
    n ∈ specialRecipients tt C nick ↔
      n ≠ nick ∧ ∃ m, Map.lookup n C.users = some m ∧
        ((tt.founder = true ∧ m.founder = true) ∨ (tt.prot = true ∧ m.prot = true) ∨
         (tt.oper = true ∧ m.operator = true) ∨ (tt.halfOper = true ∧ m.halfOper = true) ∨
         (tt.voice = true ∧ m.voice = true)) := by
  unfold specialRecipients
  simp only [mem_dedup, List.mem_filter, List.mem_append, mem_ite_list, bne_iff_ne, ne_eq]
  rw [← KSet.mem_iff, ← KSet.mem_iff, ← KSet.mem_iff, ← KSet.mem_iff, ← KSet.mem_iff,
    h.founders, h.protecteds, h.operators, h.halfOperators, h.voices]
  cases hl : Map.lookup n C.users with
  | none => simp
  | some m => simp; grind

theorem specialRecipients_nodup (tt : TargetType) (C : Channel) (nick : Str) :
    (specialRecipients tt C nick).Nodup := dedup_nodup _

theorem chanRcpts_nodup (tt : TargetType) (C : Channel) (nick : Str)
    (h : (Map.keys C.users).Nodup) : (chanRcpts tt C nick).Nodup := by
  unfold chanRcpts
  split
  · exact specialRecipients_nodup _ _ _
  · exact h.filter _

theorem chanRcpts_member (tt : TargetType) (C : Channel) (nick : Str) (h : RankMirror C)
    (n : Str) (hn : n ∈ chanRcpts tt C nick) : Map.contains n C.users = true := by
  unfold chanRcpts at hn
  rw [Map.contains_iff]
  split at hn
  · obtain ⟨_, m, hm, _⟩ := (mem_specialRecipients tt C nick h n).mp hn
    exact ⟨m, hm⟩
  · exact ((mem_plainRcpts C nick n).mp hn).1

/-! ### the part of the invariant the PRIVMSG theorems need, and a sound checker for it -/

/-- the three clauses of `InvCore` about channel membership used by C01 -/
structure ChanInv (w : World) : Prop where
  membersNodup : ∀ ch C, Map.lookup ch w.channels = some C → (Map.keys C.users).Nodup
  memberIsUser : ∀ ch C n, Map.lookup ch w.channels = some C → Map.contains n C.users = true →
    Map.contains n w.users = true
  rankMirror : ∀ ch C, Map.lookup ch w.channels = some C → RankMirror C

theorem ChanInv.of_invCore {w : World} (h : InvCore w) : ChanInv w :=
  ⟨h.membersNodup, h.memberIsUser, h.rankMirror⟩

theorem ChanInv.congr {w w' : World} (h : ChanInv w) (hu : w'.users = w.users)
    (hc : w'.channels = w.channels) : ChanInv w' := by
  refine ⟨?_, ?_, ?_⟩
  · intro ch C; rw [hc]; exact h.membersNodup ch C
  · intro ch C n; rw [hc, hu]; exact h.memberIsUser ch C n
  · intro ch C; rw [hc]; exact h.rankMirror ch C

theorem lookup_mem {α : Type} {k : Str} {m : Map α} {v : α} (h : Map.lookup k m = some v) :
    (k, v) ∈ m := by
  induction m with
  | nil => simp [Map.lookup] at h
  | cons p m ih =>
    obtain ⟨k', v'⟩ := p
    simp only [Map.lookup] at h
    split at h
    · rename_i hk; cases h; subst hk; exact List.mem_cons_self
    · exact List.mem_cons_of_mem _ (ih h)

theorem nodupStrs_sound (l : List Str) (h : nodupStrs l = true) : l.Nodup := by
  induction l with
  | nil => exact List.nodup_nil
  | cons a l ih =>
    simp only [nodupStrs, Bool.and_eq_true, Bool.not_eq_true', List.any_eq_false, beq_iff_eq] at h
    exact List.nodup_cons.mpr ⟨fun ha => h.1 a ha rfl, ih h.2⟩

theorem rank_chk_sound (C : Channel) (lst : KSet) (flag : ChanUserModes → Bool)
    (h1 : lst.all (fun n => match Map.lookup n C.users with
                            | some m => flag m | none => false) = true)
    (h2 : C.users.all (fun p => !flag p.2 || KSet.mem p.1 lst) = true) (n : Str) :
    KSet.mem n lst = true ↔ ∃ m, Map.lookup n C.users = some m ∧ flag m = true := by
  rw [List.all_eq_true] at h1 h2
  constructor
  · intro hn
    have := h1 n ((KSet.mem_iff _ _).mp hn)
    cases hl : Map.lookup n C.users with
    | none => simp [hl] at this
    | some m => simp [hl] at this; exact ⟨m, rfl, this⟩
  · rintro ⟨m, hm, hf⟩
    have := h2 (n, m) (lookup_mem hm)
    simpa [hf] using this

theorem rankMirror_of_check (C : Channel) (h : rankMirrorCheck C = true) : RankMirror C := by
  simp only [rankMirrorCheck, Bool.and_eq_true] at h
  obtain ⟨⟨⟨⟨⟨a1, a2⟩, b1, b2⟩, c1, c2⟩, d1, d2⟩, e1, e2⟩ := h
  exact ⟨rank_chk_sound C _ (·.founder) a1 a2, rank_chk_sound C _ (·.prot) b1 b2,
    rank_chk_sound C _ (·.operator) c1 c2, rank_chk_sound C _ (·.halfOper) d1 d2,
    rank_chk_sound C _ (·.voice) e1 e2⟩

/-- executable version of `ChanInv` -/
def chanInvCheck (w : World) : Bool :=
  w.channels.all (fun q => nodupStrs (Map.keys q.2.users) &&
    q.2.users.all (fun m => Map.contains m.1 w.users) && rankMirrorCheck q.2)

theorem chanInv_of_check (w : World) (h : chanInvCheck w = true) : ChanInv w := by
  simp only [chanInvCheck, List.all_eq_true, Bool.and_eq_true] at h
  refine ⟨?_, ?_, ?_⟩
  · intro ch C hl
    exact nodupStrs_sound _ (h _ (lookup_mem hl)).1.1
  · intro ch C n hl hn
    obtain ⟨m, hm⟩ := (Map.contains_iff _ _).mp hn
    exact (h _ (lookup_mem hl)).1.2 (n, m) (lookup_mem hm)
  · intro ch C hl
    exact rankMirror_of_check _ (h _ (lookup_mem hl)).2

/-! ### distinct users are owned by distinct connections -/

theorem inj_of_nodup_map {α β : Type} (f : α → β) :
    ∀ (l : List α), (l.map f).Nodup → ∀ a b, a ∈ l → b ∈ l → f a = f b → a = b
  | [], _, a, _, ha, _, _ => by simp at ha
  | x :: l, h, a, b, ha, hb, hab => by
    simp only [List.map_cons, List.nodup_cons, List.mem_map, not_exists, not_and] at h
    rcases List.mem_cons.mp ha with rfl | ha' <;> rcases List.mem_cons.mp hb with rfl | hb'
    · rfl
    · exact absurd hab.symm (h.1 b hb')
    · exact absurd hab (h.1 a ha')
    · exact inj_of_nodup_map f l h.2 a b ha' hb' hab

theorem owner_injective {w : World} (hnd : (w.conns.map (·.id)).Nodup)
    (hown : ∀ n u, Map.lookup n w.users = some u →
      ∃ cn, cn ∈ w.conns ∧ cn.id = u.owner ∧ cn.nick = some n)
    {n n' : Str} {u u' : User}
    (hu : Map.lookup n w.users = some u) (hu' : Map.lookup n' w.users = some u')
    (ho : u.owner = u'.owner) : n = n' := by
  obtain ⟨cn, hcn, hid, hnick⟩ := hown n u hu
  obtain ⟨cn', hcn', hid', hnick'⟩ := hown n' u' hu'
  have : cn = cn' := inj_of_nodup_map (·.id) w.conns hnd cn cn' hcn hcn'
    (show cn.id = cn'.id by rw [hid, hid', ho])
  subst this
  rw [hnick] at hnick'
  exact Option.some.inj hnick'

/-! ### the whole command -/

theorem mem_deliver {w : World} {line : Str} {ns : List Str} {e : Nat × Str}
    (h : e ∈ deliver w line ns) :
    ∃ n u, n ∈ ns ∧ Map.lookup n w.users = some u ∧ e = (u.owner, line) := by
  unfold deliver at h
  rw [List.mem_filterMap] at h
  obtain ⟨n, hn, he⟩ := h
  cases hl : Map.lookup n w.users with
  | none => simp [hl] at he
  | some u => simp [hl] at he; exact ⟨n, u, hn, hl, he.symm⟩

theorem deliver_eq_filter_map (w : World) (line : Str) (ns : List Str) (owner : Str → Nat)
    (h : ∀ n u, Map.lookup n w.users = some u → u.owner = owner n) :
    deliver w line ns =
      (ns.filter (fun n => Map.contains n w.users)).map (fun n => (owner n, line)) := by
  induction ns with
  | nil => rfl
  | cons n ns ih =>
    rw [deliver_cons, ih, List.filter_cons]
    cases hl : Map.lookup n w.users with
    | none =>
      have : Map.contains n w.users = false := (Map.contains_false_iff _ _).mpr hl
      simp [this, deliver_single_none hl]
    | some u =>
      have : Map.contains n w.users = true := (Map.contains_iff _ _).mpr ⟨u, hl⟩
      simp [this, deliver_single_some hl, h n u hl]

section whole
variable (cfg : Cfg) (c : Nat) (text : Str) (notice : Bool) (targets : List Str) (x : Ctx)

theorem ppn_sameData : SameData x.w (processPrivmsgNotice cfg c targets text notice x).w := by
  rw [processPrivmsgNotice_eq]
  split
  · exact SameData.panic _ _
  · rename_i nick _
    simp only
    split
    · exact (pmFold_sameData cfg c nick notice text _ (x, false)).trans (SameData.panic _ _)
    · exact pmFold_sameData cfg c nick notice text _ (x, false)

theorem ppn_queued {nick : Str} (hn : (x.conn c).nick = some nick) :
    (processPrivmsgNotice cfg c targets text notice x).queued =
      x.queued ++ (dedup targets).flatMap (fun t =>
        deliver x.w (msgLine (x.conn c).source notice t text)
          (rcptsOf x.w nick (x.conn c).source t)) := by
  rw [processPrivmsgNotice_eq]
  simp only [hn]
  split
  · rw [Ctx.panic_queued]; exact pmFold_queued cfg c nick notice text _ (x, false)
  · exact pmFold_queued cfg c nick notice text _ (x, false)

theorem ppn_privmsg_direct {nick : Str} (hn : (x.conn c).nick = some nick) :
    (processPrivmsgNotice cfg c targets text false x).direct =
      x.direct ++ (dedup targets).flatMap (fun t =>
        repliesOf cfg x.w (x.conn c).clientName nick (x.conn c).source t) := by
  rw [processPrivmsgNotice_eq]
  simp only [hn]
  split
  · rw [Ctx.panic_direct]; exact pmFold_privmsg_direct cfg c nick text _ (x, false)
  · exact pmFold_privmsg_direct cfg c nick text _ (x, false)

theorem ppn_queued_none (hn : (x.conn c).nick = none) :
    (processPrivmsgNotice cfg c targets text notice x).queued = x.queued := by
  rw [processPrivmsgNotice_eq]
  simp only [hn]; rfl

theorem privmsgTarget_w (nick target : Str) (hI : ChanInv x.w) :
    (privmsgTarget cfg c nick notice text target x).1.w = x.w := by
  by_cases hc : (getPrivmsgTargetType target).1.channel = true
  · cases hl : Map.lookup (getPrivmsgTargetType target).2 x.w.channels with
    | none =>
      rw [privmsgTarget_chan_missing cfg c nick notice text target x hc hl]
      cases notice <;> rfl
    | some ch =>
      by_cases hs : canSend ch nick (x.conn c).source = true
      · rw [privmsgTarget_chan_ok cfg c nick notice text target x hc hl hs]
        apply foldl_send_w_of_known
        intro n hn
        exact hI.memberIsUser _ ch n hl (chanRcpts_member _ ch nick (hI.rankMirror _ ch hl) n hn)
      · rw [privmsgTarget_chan_rejected cfg c nick notice text target x hc hl (by simpa using hs)]
        cases notice <;> rfl
  · have hc' : (getPrivmsgTargetType target).1.channel = false := by simpa using hc
    cases hl : Map.lookup target x.w.users with
    | none =>
      rw [privmsgTarget_nick_missing cfg c nick notice text target x hc' hl]
      cases notice <;> rfl
    | some u =>
      rw [privmsgTarget_nick_ok cfg c nick notice text target x hc' hl]
      have := send_w_of_known x target (':' :: ((x.conn c).source ++ ' ' :: msgBody notice target text))
        ((Map.contains_iff _ _).mpr ⟨u, hl⟩)
      cases notice
      · cases u.away <;> simpa [Ctx.sendDisplay] using this
      · simpa [Ctx.sendDisplay] using this

theorem ppn_w {nick : Str} (hI : ChanInv x.w) (hn : (x.conn c).nick = some nick)
    (hu : Map.contains nick x.w.users = true) :
    (processPrivmsgNotice cfg c targets text notice x).w = x.w := by
  have hfold : ((dedup targets).foldl (pmStep cfg c nick notice text) (x, false)).1.w = x.w :=
    pmFold_inv cfg c nick notice text (fun y => y.w = x.w)
      (fun t y hy => by
        have := privmsgTarget_w cfg c text notice y nick t (hy ▸ hI)
        exact this.trans hy) _ (x, false) rfl
  rw [processPrivmsgNotice_eq]
  simp only [hn, hfold, hu]
  simp [hfold]

end whole

/-! ### a small concrete world for the `decide` examples of C01 / C10

three users `alice` (connection 1), `bob` (2), `carol` (3, away); channel `#c` with
alice = founder+operator, bob = voice, carol = no rank; channel `#m` (+m +n, ban `bob!*@*`)
with alice = operator and carol without rank. -/

namespace Demo

def mkUser (nick : Str) (owner : Nat) (away : Option Str) (chans : KSet := [str "#c", str "#m"]) :
    User :=
  { hostname := str "h", name := nick, realname := nick, source := nick ++ str "!~u@h",
    modes := {}, away := away, channels := chans,
    history := { username := nick, hostname := str "h", realname := nick }, owner := owner }

def mkConn (id : Nat) (nick : Str) : Conn :=
  { id := id, hostname := str "h", nick := some nick, name := some (str "u"),
    source := nick ++ str "!~u@h", authenticated := true, registered := true,
    hasSender := false, hasQuitSender := false, hasPingSender := false }

def chanC : Channel :=
  { users := [(str "alice", { founder := true, operator := true }),
              (str "bob", { voice := true }), (str "carol", {})]
    modes := { founders := [str "alice"], operators := [str "alice"], voices := [str "bob"] } }

def chanM : Channel :=
  { users := [(str "alice", { operator := true }), (str "carol", {})]
    modes := { operators := [str "alice"], moderated := true, noExternalMessages := true,
               ban := [str "bob!*@*"] } }

def w : World :=
  { users := [(str "alice", mkUser (str "alice") 1 none), (str "bob", mkUser (str "bob") 2 none [str "#c"]),
              (str "carol", mkUser (str "carol") 3 (some (str "gone fishing")))]
    channels := [(str "#c", chanC), (str "#m", chanM)]
    conns := [mkConn 1 (str "alice"), mkConn 2 (str "bob"), mkConn 3 (str "carol")]
    connsCount := 3, maxUsers := 3 }

def x : Ctx := { w := w }
def cfg : Cfg := {}

theorem chanInv : ChanInv w := chanInv_of_check w (by decide)
theorem rankMirrorC : RankMirror chanC := rankMirror_of_check _ (by decide)
/-- the executable version of the whole invariant accepts the demo world -/
example : invCheck w = [] := by decide

end Demo

end Irc.Msg
