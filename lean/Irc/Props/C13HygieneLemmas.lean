/-
  Helper definitions and lemmas for the "one emitted string = one line" half of C13
  (`Irc/Props/C13Hygiene.lean`): no string the server emits contains a line feed.

  Sections:  0 vocabulary (`Clean`, `CleanWorld`, `CleanCfg`, `CleanCtx`)
             1 text layer (splitters, parser, command fields, render, replies)
             2 maps / sets / world operations
             3 context operations
             4-7 the handlers, file by file (HConn, HChannel, HRest, HQuery)
             8 Step (`dispatch`, `handleLine`, `settle`, `step`)
-/
import Irc.Step
namespace Irc.C13H
open Irc Irc.Reply

/-! ## 0. Vocabulary -/

/-- the line feed: the only character the receiver's line codec splits at -/
def nl : Char := '\n'

/-- a string that stays ONE line when `"\r\n"` is appended: it contains no line feed.
    (A lone `'\r'` is allowed.) -/
def Clean (s : Str) : Prop := nl ∉ s

instance (s : Str) : Decidable (Clean s) := inferInstanceAs (Decidable (nl ∉ s))

def CleanL (l : List Str) : Prop := ∀ s ∈ l, Clean s
def CleanO (o : Option Str) : Prop := ∀ s, o = some s → Clean s
/-- association list: every key clean, every value satisfies `P` -/
def CleanMap {α : Type} (P : α → Prop) (m : Map α) : Prop := ∀ p ∈ m, Clean p.1 ∧ P p.2

structure CleanModes (m : ChannelModes) : Prop where
  ban : CleanL m.ban
  exception : CleanL m.exception
  inviteException : CleanL m.inviteException
  key : CleanO m.key
  operators : CleanL m.operators
  halfOperators : CleanL m.halfOperators
  voices : CleanL m.voices
  founders : CleanL m.founders
  protecteds : CleanL m.protecteds

structure CleanDefault (d : DefaultModes) : Prop where
  operators : CleanL d.operators
  halfOperators : CleanL d.halfOperators
  voices : CleanL d.voices
  founders : CleanL d.founders
  protecteds : CleanL d.protecteds

structure CleanTopic (t : Topic) : Prop where
  topic : Clean t.topic
  nick : Clean t.nick

structure CleanChan (ch : Channel) : Prop where
  topic : ∀ t, ch.topic = some t → CleanTopic t
  modes : CleanModes ch.modes
  defaultModes : CleanDefault ch.defaultModes
  banInfo : CleanMap Clean ch.banInfo
  users : CleanMap (fun _ => True) ch.users

structure CleanHist (e : HistEntry) : Prop where
  username : Clean e.username
  hostname : Clean e.hostname
  realname : Clean e.realname

structure CleanUser (u : User) : Prop where
  hostname : Clean u.hostname
  name : Clean u.name
  realname : Clean u.realname
  source : Clean u.source
  away : CleanO u.away
  channels : CleanL u.channels
  invitedTo : CleanL u.invitedTo
  history : CleanHist u.history

structure CleanConn (cn : Conn) : Prop where
  hostname : Clean cn.hostname
  nick : CleanO cn.nick
  name : CleanO cn.name
  realname : CleanO cn.realname
  password : CleanO cn.password
  source : Clean cn.source
  killedBy : ∀ p, cn.killedBy = some p → Clean p.1 ∧ Clean p.2

/-- every string stored anywhere in the world is clean (the ghost field `panicked`, a
    literal site name that is never emitted, is not included) -/
structure CleanWorld (w : World) : Prop where
  users : CleanMap CleanUser w.users
  channels : CleanMap CleanChan w.channels
  wallops : CleanL w.wallops
  histories : CleanMap (fun h => ∀ e ∈ h, CleanHist e) w.histories
  conns : ∀ cn ∈ w.conns, CleanConn cn

/-- the configured strings that are ever stored or emitted.  (The strings inside
    `operators` / `users` and the server password are only compared, never stored or
    emitted, so nothing is assumed about them; see `CleanCfgAll`.) -/
structure CleanCfg (cfg : Cfg) : Prop where
  name : Clean cfg.name
  network : Clean cfg.network
  info : Clean cfg.info
  adminInfo : Clean cfg.adminInfo
  adminInfo2 : CleanO cfg.adminInfo2
  adminEmail : CleanO cfg.adminEmail
  motd : Clean cfg.motd
  channels : ∀ c ∈ cfg.channels, Clean c.name ∧ CleanO c.topic ∧ CleanModes c.modes

/-- the hypothesis as worded in the task: ALL configured strings. Implies `CleanCfg`. -/
structure CleanCfgAll (cfg : Cfg) : Prop extends CleanCfg cfg where
  operators : ∀ o ∈ cfg.operators, Clean o.name ∧ Clean o.password ∧ CleanO o.mask
  cfgUsers : ∀ u ∈ cfg.users, Clean u.name ∧ Clean u.nick ∧ CleanO u.password ∧ CleanO u.mask

/-- handler context: clean world, clean replies, clean queued lines -/
structure CleanCtx (x : Ctx) : Prop where
  w : CleanWorld x.w
  direct : CleanL x.direct
  queued : ∀ p ∈ x.queued, Clean p.2

/-- a parsed message all of whose pieces are clean -/
structure CleanMsg (m : Message) : Prop where
  command : Clean m.command
  params : CleanL m.params
  source : CleanO m.source

/-! ## 1. Text layer -/

@[simp] theorem clean_nil : Clean [] := by simp [Clean]
@[simp] theorem clean_cons {c : Char} {s : Str} : Clean (c :: s) ↔ c ≠ nl ∧ Clean s := by
  simp only [Clean, List.mem_cons, not_or, ne_eq]
  constructor
  · rintro ⟨h1, h2⟩; exact ⟨fun h => h1 h.symm, h2⟩
  · rintro ⟨h1, h2⟩; exact ⟨fun h => h1 h.symm, h2⟩
@[simp] theorem clean_append {a b : Str} : Clean (a ++ b) ↔ Clean a ∧ Clean b := by
  simp [Clean, List.mem_append]
theorem clean_iff {s : Str} : Clean s ↔ ∀ c ∈ s, c ≠ nl := by
  simp only [Clean]
  constructor
  · intro h c hc e; exact h (e ▸ hc)
  · intro h hm; exact h nl hm rfl

theorem Clean.sublist {s t : Str} (h : Clean s) (hs : t.Sublist s) : Clean t :=
  fun hm => h (hs.subset hm)
theorem Clean.take {s : Str} (h : Clean s) (n : Nat) : Clean (s.take n) := h.sublist (List.take_sublist _ _)
theorem Clean.drop {s : Str} (h : Clean s) (n : Nat) : Clean (s.drop n) := h.sublist (List.drop_sublist _ _)
theorem Clean.dropWhile {s : Str} (h : Clean s) (p : Char → Bool) : Clean (s.dropWhile p) :=
  h.sublist (List.dropWhile_sublist _)
theorem Clean.mem {s : Str} (h : Clean s) {c : Char} (hc : c ∈ s) : c ≠ nl := clean_iff.1 h c hc

@[simp] theorem cleanO_none : CleanO none := by intro s h; cases h
@[simp] theorem cleanO_some {s : Str} : CleanO (some s) ↔ Clean s := by
  constructor
  · intro h; exact h s rfl
  · intro h t e; cases e; exact h
theorem CleanO.of_eq {o : Option Str} {s : Str} (h : CleanO o) (e : o = some s) : Clean s := h s e
theorem CleanO.getD {o : Option Str} {d : Str} (h : CleanO o) (hd : Clean d) : Clean (o.getD d) := by
  cases o with
  | none => exact hd
  | some s => exact h s rfl

@[simp] theorem cleanL_nil : CleanL [] := by intro s h; cases h
@[simp] theorem cleanL_cons {a : Str} {l : List Str} : CleanL (a :: l) ↔ Clean a ∧ CleanL l := by
  simp [CleanL]
@[simp] theorem cleanL_append {a b : List Str} : CleanL (a ++ b) ↔ CleanL a ∧ CleanL b := by
  simp only [CleanL, List.mem_append]
  constructor
  · intro h; exact ⟨fun s hs => h s (Or.inl hs), fun s hs => h s (Or.inr hs)⟩
  · rintro ⟨h1, h2⟩ s (hs | hs)
    · exact h1 s hs
    · exact h2 s hs
theorem CleanL.subset {l l' : List Str} (h : CleanL l) (hs : ∀ s ∈ l', s ∈ l) : CleanL l' :=
  fun s hs' => h s (hs s hs')
theorem CleanL.filter {l : List Str} (h : CleanL l) (p : Str → Bool) : CleanL (l.filter p) :=
  h.subset (fun _ hs => (List.mem_filter.1 hs).1)
theorem CleanL.take {l : List Str} (h : CleanL l) (n : Nat) : CleanL (l.take n) :=
  h.subset (fun _ hs => List.mem_of_mem_take hs)
theorem CleanL.drop {l : List Str} (h : CleanL l) (n : Nat) : CleanL (l.drop n) :=
  h.subset (fun _ hs => List.mem_of_mem_drop hs)
theorem CleanL.head? {l : List Str} (h : CleanL l) : CleanO l.head? := by
  intro s e
  cases l with
  | nil => cases e
  | cons a l => cases e; exact h _ (List.mem_cons_self ..)
theorem CleanL.reverse {l : List Str} (h : CleanL l) : CleanL l.reverse :=
  h.subset (fun _ hs => List.mem_reverse.1 hs)

/-! ### numbers -/

theorem digitChar_ne (n : Nat) : digitChar n ≠ nl := by
  unfold digitChar; split <;> decide

theorem natToStrAux_clean : ∀ (fuel n : Nat) (acc : Str), Clean acc → Clean (natToStrAux fuel n acc)
  | 0, _, _, h => h
  | fuel + 1, n, acc, h => by
    unfold natToStrAux
    have h' : Clean (digitChar (n % 10) :: acc) := clean_cons.2 ⟨digitChar_ne _, h⟩
    simp only
    split
    · exact h'
    · exact natToStrAux_clean fuel _ _ h'

@[simp] theorem natToStr_clean (n : Nat) : Clean (natToStr n) :=
  natToStrAux_clean _ _ _ clean_nil

@[simp] theorem padZero_clean (w : Nat) (s : Str) : Clean (padZero w s) ↔ Clean s := by
  unfold padZero
  rw [clean_append]
  constructor
  · exact fun h => h.2
  · intro h
    refine ⟨?_, h⟩
    rw [clean_iff]
    intro c hc
    rw [List.mem_replicate] at hc
    rw [hc.2]; decide

/-! ### joining and splitting -/

theorem joinWith_clean {sep : Str} (hsep : Clean sep) : ∀ {l : List Str}, CleanL l → Clean (joinWith sep l)
  | [], _ => clean_nil
  | [x], h => h x (List.mem_cons_self ..)
  | x :: y :: rest, h => by
    unfold joinWith
    have h' := cleanL_cons.1 h
    exact clean_append.2 ⟨clean_append.2 ⟨h'.1, hsep⟩, joinWith_clean hsep h'.2⟩

theorem splitOnPred_clean (p : Char → Bool) : ∀ {s : Str}, Clean s → CleanL (splitOnPred p s)
  | [], _ => by simp [splitOnPred]
  | x :: xs, h => by
    have hx := clean_cons.1 h
    have ih := splitOnPred_clean p hx.2
    unfold splitOnPred
    split
    · simp
    · rename_i q qs heq
      rw [heq] at ih
      have ih' := cleanL_cons.1 ih
      split
      · exact cleanL_cons.2 ⟨clean_nil, ih⟩
      · exact cleanL_cons.2 ⟨clean_cons.2 ⟨hx.1, ih'.1⟩, ih'.2⟩

theorem splitOnChar_clean (c : Char) : ∀ {s : Str}, Clean s → CleanL (splitOnChar c s)
  | [], _ => by simp [splitOnChar]
  | x :: xs, h => by
    have hx := clean_cons.1 h
    have ih := splitOnChar_clean c hx.2
    unfold splitOnChar
    split
    · simp
    · rename_i q qs heq
      rw [heq] at ih
      have ih' := cleanL_cons.1 ih
      split
      · exact cleanL_cons.2 ⟨clean_nil, ih⟩
      · exact cleanL_cons.2 ⟨clean_cons.2 ⟨hx.1, ih'.1⟩, ih'.2⟩

/-- splitting AT the line feed produces clean pieces whatever the input -/
theorem splitOnChar_nl_clean : ∀ (s : Str), CleanL (splitOnChar nl s)
  | [] => by simp [splitOnChar]
  | x :: xs => by
    have ih := splitOnChar_nl_clean xs
    unfold splitOnChar
    split
    · simp
    · rename_i q qs heq
      rw [heq] at ih
      have ih' := cleanL_cons.1 ih
      split
      · exact cleanL_cons.2 ⟨clean_nil, ih⟩
      · rename_i hne
        exact cleanL_cons.2 ⟨clean_cons.2 ⟨hne, ih'.1⟩, ih'.2⟩

theorem splitTerminator_clean (s : Str) : CleanL (splitTerminator s) := by
  unfold splitTerminator
  have h : CleanL (splitOnChar '\n' s) := splitOnChar_nl_clean s
  simp only
  split
  · exact h.subset (fun _ hs => (List.dropLast_sublist _).subset hs)
  · exact h

theorem splitAsciiWhitespace_clean {s : Str} (h : Clean s) : CleanL (splitAsciiWhitespace s) :=
  (splitOnPred_clean _ h).filter _

theorem splitComma_clean {s : Str} (h : Clean s) : CleanL (splitComma s) := splitOnChar_clean _ h

theorem trimStart_clean {s : Str} (h : Clean s) : Clean (trimStart s) := h.dropWhile _

theorem toNat_ofNat_small (n : Nat) (h : n < 200) : (Char.ofNat n).toNat = n := by
  unfold Char.ofNat
  have : n.isValidChar := by left; omega
  simp [this, Char.toNat, Char.ofNatAux]

theorem asciiUpperChar_ne {c : Char} (h : c ≠ nl) : asciiUpperChar c ≠ nl := by
  unfold asciiUpperChar
  split
  · rename_i h1
    intro h2
    have h3 : (Char.ofNat (c.toNat - 32)).toNat = 10 := by rw [h2]; rfl
    have h5 : c.toNat ≤ 122 := h1.2
    have h4 := toNat_ofNat_small (c.toNat - 32) (by omega)
    have : 97 ≤ c.toNat := h1.1
    omega
  · exact h

theorem asciiUpper_clean {s : Str} (h : Clean s) : Clean (asciiUpper s) := by
  rw [clean_iff] at h ⊢
  intro c hc
  simp only [asciiUpper, List.mem_map] at hc
  obtain ⟨d, hd, rfl⟩ := hc
  exact asciiUpperChar_ne (h d hd)

/-! ### the message parser -/

theorem splitTrailing_clean : ∀ (prev : Char) {s : Str}, Clean s →
    Clean (splitTrailing prev s).1 ∧ CleanO (splitTrailing prev s).2
  | _, [], _ => by simp [splitTrailing]
  | prev, c :: cs, h => by
    have hc := clean_cons.1 h
    unfold splitTrailing
    split
    · exact ⟨clean_nil, cleanO_some.2 hc.2⟩
    · have ih := splitTrailing_clean c hc.2
      exact ⟨clean_cons.2 ⟨hc.1, ih.1⟩, ih.2⟩

theorem finish_clean {src : Option Str} {words : List Str} {lp : Option Str} {m : Message}
    (hs : CleanO src) (hw : CleanL words) (hl : CleanO lp)
    (h : Message.finish src words lp = .ok m) : CleanMsg m := by
  unfold Message.finish at h
  split at h
  · cases h
  · rename_i cmd ps
    cases h
    have hw' := cleanL_cons.1 hw
    refine ⟨hw'.1, ?_, hs⟩
    cases lp with
    | none => exact hw'.2
    | some l => exact cleanL_append.2 ⟨hw'.2, cleanL_cons.2 ⟨cleanO_some.1 hl, cleanL_nil⟩⟩

/-- every piece of a parsed line is a piece of the line -/
theorem parse_cleanMsg {l : Str} {m : Message} (hl : Clean l) (h : Message.parse l = .ok m) :
    CleanMsg m := by
  unfold Message.parse at h
  have ht := trimStart_clean hl
  split at h
  · cases h
  · rename_i c0 cs heq
    rw [heq] at ht
    have hc := clean_cons.1 ht
    have hr := splitTrailing_clean c0 hc.2
    have hrest : Clean (c0 :: (splitTrailing c0 cs).1) := clean_cons.2 ⟨hc.1, hr.1⟩
    have hwords := splitAsciiWhitespace_clean hrest
    simp only at h
    split at h
    · split at h
      · cases h
      · rename_i w ws hweq
        rw [hweq] at hwords
        have hw' := cleanL_cons.1 hwords
        split at h
        · cases h
        · exact finish_clean (cleanO_some.2 (hw'.1.drop 1)) hw'.2 hr.2 h
    · exact finish_clean cleanO_none hwords hr.2 h

/-! ### `Message.render` -/

theorem renderParams_clean : ∀ {ps : List Str}, CleanL ps → Clean (renderParams ps)
  | [], _ => clean_nil
  | [last], h => by
    have := h last (List.mem_cons_self ..)
    unfold renderParams
    split <;> simp (config := { decide := true }) [this]
  | p :: q :: rest, h => by
    have h' := cleanL_cons.1 h
    unfold renderParams
    exact clean_cons.2 ⟨by decide, clean_append.2 ⟨h'.1, renderParams_clean h'.2⟩⟩

theorem render_clean' {m : Message} {src : Str} (hs : Clean src) (hc : Clean m.command)
    (hp : CleanL m.params) : Clean (m.render src) := by
  simp (config := { decide := true }) [Message.render, hs, hc, renderParams_clean hp]

theorem CleanMsg.render {m : Message} (hm : CleanMsg m) {src : Str} (hs : Clean src) :
    Clean (m.render src) := render_clean' hs hm.command hm.params

/-! ### `normalizeSourcemask` -/

theorem normalizeSourcemask_clean {s : Str} (h : Clean s) : Clean (normalizeSourcemask s) := by
  unfold normalizeSourcemask
  split
  · split
    · exact clean_append.2 ⟨h, by decide⟩
    · exact h
  · split
    · exact clean_append.2 ⟨clean_append.2 ⟨h.take _, by decide⟩, h.drop _⟩
    · exact clean_append.2 ⟨h, by decide⟩

theorem joinWith_clean_iff {sep : Str} (hsep : Clean sep) : ∀ {l : List Str}, Clean (joinWith sep l) ↔ CleanL l
  | [] => by simp [joinWith]
  | [x] => by simp [joinWith]
  | x :: y :: rest => by
    have ih := @joinWith_clean_iff sep hsep (y :: rest)
    unfold joinWith
    simp only [clean_append, hsep, and_true, ih, cleanL_cons]

@[simp] theorem joinWith_space_clean {l : List Str} : Clean (joinWith (str " ") l) ↔ CleanL l :=
  joinWith_clean_iff (by decide)

theorem cleanL_map {α : Type} {f : α → Str} {l : List α} : CleanL (l.map f) ↔ ∀ a ∈ l, Clean (f a) := by
  simp [CleanL]

/-- ONE tactic for the whole reply table: unfold the definition, split the concatenation,
    decide the literal pieces. -/
syntax "reply_tac " ident : tactic
macro_rules
  | `(tactic| reply_tac $n:ident) => `(tactic|
      (first
        | (simp (config := { decide := true }) [$n:ident, and_assoc, cleanL_map]; done)
        | (simp (config := { decide := true }) [$n:ident, and_assoc, and_comm, and_left_comm]; done)
        | (unfold $n; split <;> simp (config := { decide := true }) [and_assoc]; done)))

theorem whoisChan_clean (c : Option Str × Str) :
    Clean (match c.1 with | some p => p ++ c.2 | none => c.2) ↔ CleanO c.1 ∧ Clean c.2 := by
  obtain ⟨a, b⟩ := c
  cases a <;> simp

@[simp] theorem RplWelcome001_clean (client networkname nick user host : Str) :
    Clean (RplWelcome001 client networkname nick user host) ↔ Clean client ∧ Clean networkname ∧ Clean nick ∧ Clean user ∧ Clean host := by reply_tac RplWelcome001
@[simp] theorem RplYourHost002_clean (client servername version : Str) :
    Clean (RplYourHost002 client servername version) ↔ Clean client ∧ Clean servername ∧ Clean version := by reply_tac RplYourHost002
@[simp] theorem RplCreated003_clean (client datetime : Str) :
    Clean (RplCreated003 client datetime) ↔ Clean client ∧ Clean datetime := by reply_tac RplCreated003
@[simp] theorem RplMyInfo004_clean (client servername version avail_user_modes avail_chmodes : Str) (avail_chmodes_with_params : Option Str) :
    Clean (RplMyInfo004 client servername version avail_user_modes avail_chmodes avail_chmodes_with_params) ↔ Clean client ∧ Clean servername ∧ Clean version ∧ Clean avail_user_modes ∧ Clean avail_chmodes ∧ CleanO avail_chmodes_with_params := by reply_tac RplMyInfo004
@[simp] theorem RplISupport005_clean (client tokens : Str) :
    Clean (RplISupport005 client tokens) ↔ Clean client ∧ Clean tokens := by reply_tac RplISupport005
@[simp] theorem RplStatsCommands212_clean (client command : Str) (count : Nat) :
    Clean (RplStatsCommands212 client command count) ↔ Clean client ∧ Clean command := by reply_tac RplStatsCommands212
@[simp] theorem RplEndOfStats219_clean (client : Str) (stat : Char) :
    Clean (RplEndOfStats219 client stat) ↔ Clean client ∧ stat ≠ nl := by reply_tac RplEndOfStats219
@[simp] theorem RplUModeIs221_clean (client user_modes : Str) :
    Clean (RplUModeIs221 client user_modes) ↔ Clean client ∧ Clean user_modes := by reply_tac RplUModeIs221
@[simp] theorem RplStatsUptime242_clean (client : Str) (seconds : Nat) :
    Clean (RplStatsUptime242 client seconds) ↔ Clean client := by reply_tac RplStatsUptime242
@[simp] theorem RplLUserClient251_clean (client : Str) (users_num inv_users_num servers_num : Nat) :
    Clean (RplLUserClient251 client users_num inv_users_num servers_num) ↔ Clean client := by reply_tac RplLUserClient251
@[simp] theorem RplLUserOp252_clean (client : Str) (ops_num : Nat) :
    Clean (RplLUserOp252 client ops_num) ↔ Clean client := by reply_tac RplLUserOp252
@[simp] theorem RplLUserUnknown253_clean (client : Str) (conns_num : Nat) :
    Clean (RplLUserUnknown253 client conns_num) ↔ Clean client := by reply_tac RplLUserUnknown253
@[simp] theorem RplLUserChannels254_clean (client : Str) (channels_num : Nat) :
    Clean (RplLUserChannels254 client channels_num) ↔ Clean client := by reply_tac RplLUserChannels254
@[simp] theorem RplLUserMe255_clean (client : Str) (clients_num servers_num : Nat) :
    Clean (RplLUserMe255 client clients_num servers_num) ↔ Clean client := by reply_tac RplLUserMe255
@[simp] theorem RplAdminMe256_clean (client server : Str) :
    Clean (RplAdminMe256 client server) ↔ Clean client ∧ Clean server := by reply_tac RplAdminMe256
@[simp] theorem RplAdminLoc1257_clean (client info : Str) :
    Clean (RplAdminLoc1257 client info) ↔ Clean client ∧ Clean info := by reply_tac RplAdminLoc1257
@[simp] theorem RplAdminLoc2258_clean (client info : Str) :
    Clean (RplAdminLoc2258 client info) ↔ Clean client ∧ Clean info := by reply_tac RplAdminLoc2258
@[simp] theorem RplAdminEmail259_clean (client email : Str) :
    Clean (RplAdminEmail259 client email) ↔ Clean client ∧ Clean email := by reply_tac RplAdminEmail259
@[simp] theorem RplLocalUsers265_clean (client : Str) (clients_num max_clients_num : Nat) :
    Clean (RplLocalUsers265 client clients_num max_clients_num) ↔ Clean client := by reply_tac RplLocalUsers265
@[simp] theorem RplGlobalUsers266_clean (client : Str) (clients_num max_clients_num : Nat) :
    Clean (RplGlobalUsers266 client clients_num max_clients_num) ↔ Clean client := by reply_tac RplGlobalUsers266
@[simp] theorem RplAway301_clean (client nick message : Str) :
    Clean (RplAway301 client nick message) ↔ Clean client ∧ Clean nick ∧ Clean message := by reply_tac RplAway301
@[simp] theorem RplUserHost302_clean (client : Str) (replies : List Str) :
    Clean (RplUserHost302 client replies) ↔ Clean client ∧ CleanL replies := by reply_tac RplUserHost302
@[simp] theorem RplIson303_clean (client : Str) (nicknames : List Str) :
    Clean (RplIson303 client nicknames) ↔ Clean client ∧ CleanL nicknames := by reply_tac RplIson303
@[simp] theorem RplUnAway305_clean (client : Str) :
    Clean (RplUnAway305 client) ↔ Clean client := by reply_tac RplUnAway305
@[simp] theorem RplNowAway306_clean (client : Str) :
    Clean (RplNowAway306 client) ↔ Clean client := by reply_tac RplNowAway306
@[simp] theorem RplWhoReply352_clean (client channel username host server nick flags : Str) (hopcount : Nat) (realname : Str) :
    Clean (RplWhoReply352 client channel username host server nick flags hopcount realname) ↔ Clean client ∧ Clean channel ∧ Clean username ∧ Clean host ∧ Clean server ∧ Clean nick ∧ Clean flags ∧ Clean realname := by reply_tac RplWhoReply352
@[simp] theorem RplEndOfWho315_clean (client mask : Str) :
    Clean (RplEndOfWho315 client mask) ↔ Clean client ∧ Clean mask := by reply_tac RplEndOfWho315
@[simp] theorem RplWhoIsRegNick307_clean (client nick : Str) :
    Clean (RplWhoIsRegNick307 client nick) ↔ Clean client ∧ Clean nick := by reply_tac RplWhoIsRegNick307
@[simp] theorem RplWhoIsUser311_clean (client nick username host realname : Str) :
    Clean (RplWhoIsUser311 client nick username host realname) ↔ Clean client ∧ Clean nick ∧ Clean username ∧ Clean host ∧ Clean realname := by reply_tac RplWhoIsUser311
@[simp] theorem RplWhoIsServer312_clean (client nick server server_info : Str) :
    Clean (RplWhoIsServer312 client nick server server_info) ↔ Clean client ∧ Clean nick ∧ Clean server ∧ Clean server_info := by reply_tac RplWhoIsServer312
@[simp] theorem RplWhoIsOperator313_clean (client nick : Str) :
    Clean (RplWhoIsOperator313 client nick) ↔ Clean client ∧ Clean nick := by reply_tac RplWhoIsOperator313
@[simp] theorem RplWhoWasUser314_clean (client nick username host realname : Str) :
    Clean (RplWhoWasUser314 client nick username host realname) ↔ Clean client ∧ Clean nick ∧ Clean username ∧ Clean host ∧ Clean realname := by reply_tac RplWhoWasUser314
@[simp] theorem RplwhoIsIdle317_clean (client nick : Str) (secs signon : Nat) :
    Clean (RplwhoIsIdle317 client nick secs signon) ↔ Clean client ∧ Clean nick := by reply_tac RplwhoIsIdle317
@[simp] theorem RplEndOfWhoIs318_clean (client nick : Str) :
    Clean (RplEndOfWhoIs318 client nick) ↔ Clean client ∧ Clean nick := by reply_tac RplEndOfWhoIs318
@[simp] theorem RplWhoIsChannels319_clean (client nick : Str) (channels : List (Option Str × Str)) :
    Clean (RplWhoIsChannels319 client nick channels) ↔ Clean client ∧ Clean nick ∧ (∀ p ∈ channels, CleanO p.1 ∧ Clean p.2) := by
  simp (config := { decide := true }) only [RplWhoIsChannels319, clean_append, joinWith_space_clean, cleanL_map, true_and, and_assoc]
  constructor
  · rintro ⟨h1, h2, h3⟩; exact ⟨h1, h2, fun a ha => (whoisChan_clean a).1 (h3 a ha)⟩
  · rintro ⟨h1, h2, h3⟩; exact ⟨h1, h2, fun a ha => (whoisChan_clean a).2 (h3 a ha)⟩
@[simp] theorem RplListStart321_clean (client : Str) :
    Clean (RplListStart321 client) ↔ Clean client := by reply_tac RplListStart321
@[simp] theorem RplList322_clean (client channel : Str) (client_count : Nat) (topic : Str) :
    Clean (RplList322 client channel client_count topic) ↔ Clean client ∧ Clean channel ∧ Clean topic := by reply_tac RplList322
@[simp] theorem RplListEnd323_clean (client : Str) :
    Clean (RplListEnd323 client) ↔ Clean client := by reply_tac RplListEnd323
@[simp] theorem RplChannelModeIs324_clean (client channel modestring : Str) :
    Clean (RplChannelModeIs324 client channel modestring) ↔ Clean client ∧ Clean channel ∧ Clean modestring := by reply_tac RplChannelModeIs324
@[simp] theorem RplCreationTime329_clean (client channel : Str) (creation_time : Nat) :
    Clean (RplCreationTime329 client channel creation_time) ↔ Clean client ∧ Clean channel := by reply_tac RplCreationTime329
@[simp] theorem RplNoTopic331_clean (client channel : Str) :
    Clean (RplNoTopic331 client channel) ↔ Clean client ∧ Clean channel := by reply_tac RplNoTopic331
@[simp] theorem RplTopic332_clean (client channel topic : Str) :
    Clean (RplTopic332 client channel topic) ↔ Clean client ∧ Clean channel ∧ Clean topic := by reply_tac RplTopic332
@[simp] theorem RplTopicWhoTime333_clean (client channel nick : Str) (setat : Nat) :
    Clean (RplTopicWhoTime333 client channel nick setat) ↔ Clean client ∧ Clean channel ∧ Clean nick := by reply_tac RplTopicWhoTime333
@[simp] theorem RplInviting341_clean (client nick channel : Str) :
    Clean (RplInviting341 client nick channel) ↔ Clean client ∧ Clean nick ∧ Clean channel := by reply_tac RplInviting341
@[simp] theorem RplInviteList346_clean (client channel mask : Str) :
    Clean (RplInviteList346 client channel mask) ↔ Clean client ∧ Clean channel ∧ Clean mask := by reply_tac RplInviteList346
@[simp] theorem RplEndOfInviteList347_clean (client channel : Str) :
    Clean (RplEndOfInviteList347 client channel) ↔ Clean client ∧ Clean channel := by reply_tac RplEndOfInviteList347
@[simp] theorem RplExceptList348_clean (client channel mask : Str) :
    Clean (RplExceptList348 client channel mask) ↔ Clean client ∧ Clean channel ∧ Clean mask := by reply_tac RplExceptList348
@[simp] theorem RplEndOfExceptList349_clean (client channel : Str) :
    Clean (RplEndOfExceptList349 client channel) ↔ Clean client ∧ Clean channel := by reply_tac RplEndOfExceptList349
@[simp] theorem RplVersion351_clean (client version server comments : Str) :
    Clean (RplVersion351 client version server comments) ↔ Clean client ∧ Clean version ∧ Clean server ∧ Clean comments := by reply_tac RplVersion351
@[simp] theorem RplNameReply353_clean (client symbol channel : Str) (replies : List (Str × Str)) :
    Clean (RplNameReply353 client symbol channel replies) ↔ Clean client ∧ Clean symbol ∧ Clean channel ∧ (∀ p ∈ replies, Clean p.1 ∧ Clean p.2) := by reply_tac RplNameReply353
@[simp] theorem RplEndOfNames366_clean (client channel : Str) :
    Clean (RplEndOfNames366 client channel) ↔ Clean client ∧ Clean channel := by reply_tac RplEndOfNames366
@[simp] theorem RplLinks364_clean (client mask server : Str) (hop_count : Nat) (server_info : Str) :
    Clean (RplLinks364 client mask server hop_count server_info) ↔ Clean client ∧ Clean mask ∧ Clean server ∧ Clean server_info := by reply_tac RplLinks364
@[simp] theorem RplEndOfLinks365_clean (client mask : Str) :
    Clean (RplEndOfLinks365 client mask) ↔ Clean client ∧ Clean mask := by reply_tac RplEndOfLinks365
@[simp] theorem RplBanList367_clean (client channel mask who : Str) (set_ts : Nat) :
    Clean (RplBanList367 client channel mask who set_ts) ↔ Clean client ∧ Clean channel ∧ Clean mask ∧ Clean who := by reply_tac RplBanList367
@[simp] theorem RplEndOfBanList368_clean (client channel : Str) :
    Clean (RplEndOfBanList368 client channel) ↔ Clean client ∧ Clean channel := by reply_tac RplEndOfBanList368
@[simp] theorem RplEndOfWhoWas369_clean (client nick : Str) :
    Clean (RplEndOfWhoWas369 client nick) ↔ Clean client ∧ Clean nick := by reply_tac RplEndOfWhoWas369
@[simp] theorem RplInfo371_clean (client info : Str) :
    Clean (RplInfo371 client info) ↔ Clean client ∧ Clean info := by reply_tac RplInfo371
@[simp] theorem RplEndOfInfo374_clean (client : Str) :
    Clean (RplEndOfInfo374 client) ↔ Clean client := by reply_tac RplEndOfInfo374
@[simp] theorem RplMotdStart375_clean (client server : Str) :
    Clean (RplMotdStart375 client server) ↔ Clean client ∧ Clean server := by reply_tac RplMotdStart375
@[simp] theorem RplMotd372_clean (client motd : Str) :
    Clean (RplMotd372 client motd) ↔ Clean client ∧ Clean motd := by reply_tac RplMotd372
@[simp] theorem RplEndOfMotd376_clean (client : Str) :
    Clean (RplEndOfMotd376 client) ↔ Clean client := by reply_tac RplEndOfMotd376
@[simp] theorem RplWhoIsHost378_clean (client nick host_info : Str) :
    Clean (RplWhoIsHost378 client nick host_info) ↔ Clean client ∧ Clean nick ∧ Clean host_info := by reply_tac RplWhoIsHost378
@[simp] theorem RplWhoIsModes379_clean (client nick modes : Str) :
    Clean (RplWhoIsModes379 client nick modes) ↔ Clean client ∧ Clean nick ∧ Clean modes := by reply_tac RplWhoIsModes379
@[simp] theorem RplYoureOper381_clean (client : Str) :
    Clean (RplYoureOper381 client) ↔ Clean client := by reply_tac RplYoureOper381
@[simp] theorem RplTime391_clean (client server : Str) (timestamp : Nat) (ts_offset human_readable : Str) :
    Clean (RplTime391 client server timestamp ts_offset human_readable) ↔ Clean client ∧ Clean server ∧ Clean ts_offset ∧ Clean human_readable := by reply_tac RplTime391
@[simp] theorem ErrUnknownError400_clean (client command : Str) (subcommand : Option Str) (info : Str) :
    Clean (ErrUnknownError400 client command subcommand info) ↔ Clean client ∧ Clean command ∧ CleanO subcommand ∧ Clean info := by reply_tac ErrUnknownError400
@[simp] theorem ErrNoSuchNick401_clean (client nick : Str) :
    Clean (ErrNoSuchNick401 client nick) ↔ Clean client ∧ Clean nick := by reply_tac ErrNoSuchNick401
@[simp] theorem ErrNoSuchChannel403_clean (client channel : Str) :
    Clean (ErrNoSuchChannel403 client channel) ↔ Clean client ∧ Clean channel := by reply_tac ErrNoSuchChannel403
@[simp] theorem ErrCannotSendToChain404_clean (client channel : Str) :
    Clean (ErrCannotSendToChain404 client channel) ↔ Clean client ∧ Clean channel := by reply_tac ErrCannotSendToChain404
@[simp] theorem ErrTooManyChannels405_clean (client channel : Str) :
    Clean (ErrTooManyChannels405 client channel) ↔ Clean client ∧ Clean channel := by reply_tac ErrTooManyChannels405
@[simp] theorem ErrWasNoSuchNick406_clean (client nick : Str) :
    Clean (ErrWasNoSuchNick406 client nick) ↔ Clean client ∧ Clean nick := by reply_tac ErrWasNoSuchNick406
@[simp] theorem ErrInputTooLong417_clean (client : Str) :
    Clean (ErrInputTooLong417 client) ↔ Clean client := by reply_tac ErrInputTooLong417
@[simp] theorem ErrUnknownCommand421_clean (client command : Str) :
    Clean (ErrUnknownCommand421 client command) ↔ Clean client ∧ Clean command := by reply_tac ErrUnknownCommand421
@[simp] theorem ErrNicknameInUse433_clean (client nick : Str) :
    Clean (ErrNicknameInUse433 client nick) ↔ Clean client ∧ Clean nick := by reply_tac ErrNicknameInUse433
@[simp] theorem ErrUserNotInChannel441_clean (client nick channel : Str) :
    Clean (ErrUserNotInChannel441 client nick channel) ↔ Clean client ∧ Clean nick ∧ Clean channel := by reply_tac ErrUserNotInChannel441
@[simp] theorem ErrNotOnChannel442_clean (client channel : Str) :
    Clean (ErrNotOnChannel442 client channel) ↔ Clean client ∧ Clean channel := by reply_tac ErrNotOnChannel442
@[simp] theorem ErrUserOnChannel443_clean (client nick channel : Str) :
    Clean (ErrUserOnChannel443 client nick channel) ↔ Clean client ∧ Clean nick ∧ Clean channel := by reply_tac ErrUserOnChannel443
@[simp] theorem ErrNotRegistered451_clean (client : Str) :
    Clean (ErrNotRegistered451 client) ↔ Clean client := by reply_tac ErrNotRegistered451
@[simp] theorem ErrNeedMoreParams461_clean (client command : Str) :
    Clean (ErrNeedMoreParams461 client command) ↔ Clean client ∧ Clean command := by reply_tac ErrNeedMoreParams461
@[simp] theorem ErrAlreadyRegistered462_clean (client : Str) :
    Clean (ErrAlreadyRegistered462 client) ↔ Clean client := by reply_tac ErrAlreadyRegistered462
@[simp] theorem ErrPasswdMismatch464_clean (client : Str) :
    Clean (ErrPasswdMismatch464 client) ↔ Clean client := by reply_tac ErrPasswdMismatch464
@[simp] theorem ErrChannelIsFull471_clean (client channel : Str) :
    Clean (ErrChannelIsFull471 client channel) ↔ Clean client ∧ Clean channel := by reply_tac ErrChannelIsFull471
@[simp] theorem ErrUnknownMode472_clean (client : Str) (modechar : Char) (channel : Str) :
    Clean (ErrUnknownMode472 client modechar channel) ↔ Clean client ∧ modechar ≠ nl ∧ Clean channel := by reply_tac ErrUnknownMode472
@[simp] theorem ErrInviteOnlyChan473_clean (client channel : Str) :
    Clean (ErrInviteOnlyChan473 client channel) ↔ Clean client ∧ Clean channel := by reply_tac ErrInviteOnlyChan473
@[simp] theorem ErrBannedFromChan474_clean (client channel : Str) :
    Clean (ErrBannedFromChan474 client channel) ↔ Clean client ∧ Clean channel := by reply_tac ErrBannedFromChan474
@[simp] theorem ErrBadChannelKey475_clean (client channel : Str) :
    Clean (ErrBadChannelKey475 client channel) ↔ Clean client ∧ Clean channel := by reply_tac ErrBadChannelKey475
@[simp] theorem ErrNoPrivileges481_clean (client : Str) :
    Clean (ErrNoPrivileges481 client) ↔ Clean client := by reply_tac ErrNoPrivileges481
@[simp] theorem ErrChanOpPrivsNeeded482_clean (client channel : Str) :
    Clean (ErrChanOpPrivsNeeded482 client channel) ↔ Clean client ∧ Clean channel := by reply_tac ErrChanOpPrivsNeeded482
@[simp] theorem ErrCantKillServer483_clean (client : Str) :
    Clean (ErrCantKillServer483 client) ↔ Clean client := by reply_tac ErrCantKillServer483
@[simp] theorem ErrYourConnRestricted484_clean (client : Str) :
    Clean (ErrYourConnRestricted484 client) ↔ Clean client := by reply_tac ErrYourConnRestricted484
@[simp] theorem ErrNoOperHost491_clean (client : Str) :
    Clean (ErrNoOperHost491 client) ↔ Clean client := by reply_tac ErrNoOperHost491
@[simp] theorem ErrUmodeUnknownFlag501_clean (client : Str) :
    Clean (ErrUmodeUnknownFlag501 client) ↔ Clean client := by reply_tac ErrUmodeUnknownFlag501
@[simp] theorem ErrUsersDontMatch502_clean (client : Str) :
    Clean (ErrUsersDontMatch502 client) ↔ Clean client := by reply_tac ErrUsersDontMatch502
@[simp] theorem ErrHelpNotFound524_clean (client subject : Str) :
    Clean (ErrHelpNotFound524 client subject) ↔ Clean client ∧ Clean subject := by reply_tac ErrHelpNotFound524
@[simp] theorem RplWhoIsSecure671_clean (client nick : Str) :
    Clean (RplWhoIsSecure671 client nick) ↔ Clean client ∧ Clean nick := by reply_tac RplWhoIsSecure671
@[simp] theorem ErrInvalidModeParam696_clean (client target : Str) (modechar : Char) (param description : Str) :
    Clean (ErrInvalidModeParam696 client target modechar param description) ↔ Clean client ∧ Clean target ∧ modechar ≠ nl ∧ Clean param ∧ Clean description := by reply_tac ErrInvalidModeParam696
@[simp] theorem RplHelpStart704_clean (client subject line : Str) :
    Clean (RplHelpStart704 client subject line) ↔ Clean client ∧ Clean subject ∧ Clean line := by reply_tac RplHelpStart704
@[simp] theorem RplHelpTxt705_clean (client subject line : Str) :
    Clean (RplHelpTxt705 client subject line) ↔ Clean client ∧ Clean subject ∧ Clean line := by reply_tac RplHelpTxt705
@[simp] theorem RplEndOfHelp706_clean (client subject line : Str) :
    Clean (RplEndOfHelp706 client subject line) ↔ Clean client ∧ Clean subject ∧ Clean line := by reply_tac RplEndOfHelp706
@[simp] theorem ErrCannotDoCommand972_clean (client : Str) :
    Clean (ErrCannotDoCommand972 client) ↔ Clean client := by reply_tac ErrCannotDoCommand972

end Irc.C13H
