/-
  Helper definitions and lemmas for the "one emitted string = one line" half of C13
  (`Irc/Props/C13Hygiene.lean`): no string the server emits contains a line feed.

  Sections:  0 vocabulary (`Clean`, `CleanWorld`, `CleanCfg`, `CleanCtx`)
             1 text layer (splitters, parser, command fields, render, replies)
             2 maps / sets / world operations
             3 context operations
             4-7 the handlers, file by file (HConn, HChannel, HRest, HQuery)
             8 Step (`dispatch`, `handleLine`, `settle`, `step`)
-/
import Irc.Step
namespace Irc.C13H
open Irc Irc.Reply

/-! ## 0. Vocabulary -/

/-- the line feed: the only character the receiver's line codec splits at -/
def nl : Char := '\n'

/-- a string that stays ONE line when `"\r\n"` is appended: it contains no line feed.
    (A lone `'\r'` is allowed.) -/
def Clean (s : Str) : Prop := nl ∉ s

instance (s : Str) : Decidable (Clean s) := inferInstanceAs (Decidable (nl ∉ s))

def CleanL (l : List Str) : Prop := ∀ s ∈ l, Clean s
def CleanO (o : Option Str) : Prop := ∀ s, o = some s → Clean s
/-- association list: every key clean, every value satisfies `P` -/
def CleanMap {α : Type} (P : α → Prop) (m : Map α) : Prop := ∀ p ∈ m, Clean p.1 ∧ P p.2

structure CleanModes (m : ChannelModes) : Prop where
  ban : CleanL m.ban
  exception : CleanL m.exception
  inviteException : CleanL m.inviteException
  key : CleanO m.key
  operators : CleanL m.operators
  halfOperators : CleanL m.halfOperators
  voices : CleanL m.voices
  founders : CleanL m.founders
  protecteds : CleanL m.protecteds

structure CleanDefault (d : DefaultModes) : Prop where
  operators : CleanL d.operators
  halfOperators : CleanL d.halfOperators
  voices : CleanL d.voices
  founders : CleanL d.founders
  protecteds : CleanL d.protecteds

structure CleanTopic (t : Topic) : Prop where
  topic : Clean t.topic
  nick : Clean t.nick

structure CleanChan (ch : Channel) : Prop where
  topic : ∀ t, ch.topic = some t → CleanTopic t
  modes : CleanModes ch.modes
  defaultModes : CleanDefault ch.defaultModes
  banInfo : CleanMap Clean ch.banInfo
  users : CleanMap (fun _ => True) ch.users

structure CleanHist (e : HistEntry) : Prop where
  username : Clean e.username
  hostname : Clean e.hostname
  realname : Clean e.realname

structure CleanUser (u : User) : Prop where
  hostname : Clean u.hostname
  name : Clean u.name
  realname : Clean u.realname
  source : Clean u.source
  away : CleanO u.away
  channels : CleanL u.channels
  invitedTo : CleanL u.invitedTo
  history : CleanHist u.history

structure CleanConn (cn : Conn) : Prop where
  hostname : Clean cn.hostname
  nick : CleanO cn.nick
  name : CleanO cn.name
  realname : CleanO cn.realname
  password : CleanO cn.password
  source : Clean cn.source
  killedBy : ∀ p, cn.killedBy = some p → Clean p.1 ∧ Clean p.2

/-- every string stored anywhere in the world is clean (the ghost field `panicked`, a
    literal site name that is never emitted, is not included) -/
structure CleanWorld (w : World) : Prop where
  users : CleanMap CleanUser w.users
  channels : CleanMap CleanChan w.channels
  wallops : CleanL w.wallops
  histories : CleanMap (fun h => ∀ e ∈ h, CleanHist e) w.histories
  conns : ∀ cn ∈ w.conns, CleanConn cn

/-- the configured strings that are ever stored or emitted.  (The strings inside
    `operators` / `users` and the server password are only compared, never stored or
    emitted, so nothing is assumed about them; see `CleanCfgAll`.) -/
structure CleanCfg (cfg : Cfg) : Prop where
  name : Clean cfg.name
  network : Clean cfg.network
  info : Clean cfg.info
  adminInfo : Clean cfg.adminInfo
  adminInfo2 : CleanO cfg.adminInfo2
  adminEmail : CleanO cfg.adminEmail
  motd : Clean cfg.motd
  channels : ∀ c ∈ cfg.channels, Clean c.name ∧ CleanO c.topic ∧ CleanModes c.modes

/-- the hypothesis as worded in the task: ALL configured strings. Implies `CleanCfg`. -/
structure CleanCfgAll (cfg : Cfg) : Prop extends CleanCfg cfg where
  operators : ∀ o ∈ cfg.operators, Clean o.name ∧ Clean o.password ∧ CleanO o.mask
  cfgUsers : ∀ u ∈ cfg.users, Clean u.name ∧ Clean u.nick ∧ CleanO u.password ∧ CleanO u.mask

/-- handler context: clean world, clean replies, clean queued lines -/
structure CleanCtx (x : Ctx) : Prop where
  w : CleanWorld x.w
  direct : CleanL x.direct
  queued : ∀ p ∈ x.queued, Clean p.2

/-- a parsed message all of whose pieces are clean -/
structure CleanMsg (m : Message) : Prop where
  command : Clean m.command
  params : CleanL m.params
  source : CleanO m.source

/-! ## 1. Text layer -/

@[simp] theorem clean_nil : Clean [] := by simp [Clean]
@[simp] theorem clean_cons {c : Char} {s : Str} : Clean (c :: s) ↔ c ≠ nl ∧ Clean s := by
  simp only [Clean, List.mem_cons, not_or, ne_eq]
  constructor
  · rintro ⟨h1, h2⟩; exact ⟨fun h => h1 h.symm, h2⟩
  · rintro ⟨h1, h2⟩; exact ⟨fun h => h1 h.symm, h2⟩
@[simp] theorem clean_append {a b : Str} : Clean (a ++ b) ↔ Clean a ∧ Clean b := by
  simp [Clean, List.mem_append]
theorem clean_iff {s : Str} : Clean s ↔ ∀ c ∈ s, c ≠ nl := by
  simp only [Clean]
  constructor
  · intro h c hc e; exact h (e ▸ hc)
  · intro h hm; exact h nl hm rfl

theorem Clean.sublist {s t : Str} (h : Clean s) (hs : t.Sublist s) : Clean t :=
  fun hm => h (hs.subset hm)
theorem Clean.take {s : Str} (h : Clean s) (n : Nat) : Clean (s.take n) := h.sublist (List.take_sublist _ _)
theorem Clean.drop {s : Str} (h : Clean s) (n : Nat) : Clean (s.drop n) := h.sublist (List.drop_sublist _ _)
theorem Clean.dropWhile {s : Str} (h : Clean s) (p : Char → Bool) : Clean (s.dropWhile p) :=
  h.sublist (List.dropWhile_sublist _)
theorem Clean.mem {s : Str} (h : Clean s) {c : Char} (hc : c ∈ s) : c ≠ nl := clean_iff.1 h c hc

@[simp] theorem cleanO_none : CleanO none := by intro s h; cases h
@[simp] theorem cleanO_some {s : Str} : CleanO (some s) ↔ Clean s := by
  constructor
  · intro h; exact h s rfl
  · intro h t e; cases e; exact h
theorem CleanO.of_eq {o : Option Str} {s : Str} (h : CleanO o) (e : o = some s) : Clean s := h s e
theorem CleanO.getD {o : Option Str} {d : Str} (h : CleanO o) (hd : Clean d) : Clean (o.getD d) := by
  cases o with
  | none => exact hd
  | some s => exact h s rfl

@[simp] theorem cleanL_nil : CleanL [] := by intro s h; cases h
@[simp] theorem cleanL_cons {a : Str} {l : List Str} : CleanL (a :: l) ↔ Clean a ∧ CleanL l := by
  simp [CleanL]
@[simp] theorem cleanL_append {a b : List Str} : CleanL (a ++ b) ↔ CleanL a ∧ CleanL b := by
  simp only [CleanL, List.mem_append]
  constructor
  · intro h; exact ⟨fun s hs => h s (Or.inl hs), fun s hs => h s (Or.inr hs)⟩
  · rintro ⟨h1, h2⟩ s (hs | hs)
    · exact h1 s hs
    · exact h2 s hs
theorem CleanL.subset {l l' : List Str} (h : CleanL l) (hs : ∀ s ∈ l', s ∈ l) : CleanL l' :=
  fun s hs' => h s (hs s hs')
theorem CleanL.filter {l : List Str} (h : CleanL l) (p : Str → Bool) : CleanL (l.filter p) :=
  h.subset (fun _ hs => (List.mem_filter.1 hs).1)
theorem CleanL.take {l : List Str} (h : CleanL l) (n : Nat) : CleanL (l.take n) :=
  h.subset (fun _ hs => List.mem_of_mem_take hs)
theorem CleanL.drop {l : List Str} (h : CleanL l) (n : Nat) : CleanL (l.drop n) :=
  h.subset (fun _ hs => List.mem_of_mem_drop hs)
theorem CleanL.head? {l : List Str} (h : CleanL l) : CleanO l.head? := by
  intro s e
  cases l with
  | nil => cases e
  | cons a l => cases e; exact h _ (List.mem_cons_self ..)
theorem CleanL.reverse {l : List Str} (h : CleanL l) : CleanL l.reverse :=
  h.subset (fun _ hs => List.mem_reverse.1 hs)

/-! ### numbers -/

theorem digitChar_ne (n : Nat) : digitChar n ≠ nl := by
  unfold digitChar; split <;> decide

theorem natToStrAux_clean : ∀ (fuel n : Nat) (acc : Str), Clean acc → Clean (natToStrAux fuel n acc)
  | 0, _, _, h => h
  | fuel + 1, n, acc, h => by
    unfold natToStrAux
    have h' : Clean (digitChar (n % 10) :: acc) := clean_cons.2 ⟨digitChar_ne _, h⟩
    simp only
    split
    · exact h'
    · exact natToStrAux_clean fuel _ _ h'

@[simp] theorem natToStr_clean (n : Nat) : Clean (natToStr n) :=
  natToStrAux_clean _ _ _ clean_nil

@[simp] theorem padZero_clean (w : Nat) (s : Str) : Clean (padZero w s) ↔ Clean s := by
  unfold padZero
  rw [clean_append]
  constructor
  · exact fun h => h.2
  · intro h
    refine ⟨?_, h⟩
    rw [clean_iff]
    intro c hc
    rw [List.mem_replicate] at hc
    rw [hc.2]; decide

/-! ### joining and splitting -/

theorem joinWith_clean {sep : Str} (hsep : Clean sep) : ∀ {l : List Str}, CleanL l → Clean (joinWith sep l)
  | [], _ => clean_nil
  | [x], h => h x (List.mem_cons_self ..)
  | x :: y :: rest, h => by
    unfold joinWith
    have h' := cleanL_cons.1 h
    exact clean_append.2 ⟨clean_append.2 ⟨h'.1, hsep⟩, joinWith_clean hsep h'.2⟩

theorem splitOnPred_clean (p : Char → Bool) : ∀ {s : Str}, Clean s → CleanL (splitOnPred p s)
  | [], _ => by simp [splitOnPred]
  | x :: xs, h => by
    have hx := clean_cons.1 h
    have ih := splitOnPred_clean p hx.2
    unfold splitOnPred
    split
    · simp
    · rename_i q qs heq
      rw [heq] at ih
      have ih' := cleanL_cons.1 ih
      split
      · exact cleanL_cons.2 ⟨clean_nil, ih⟩
      · exact cleanL_cons.2 ⟨clean_cons.2 ⟨hx.1, ih'.1⟩, ih'.2⟩

theorem splitOnChar_clean (c : Char) : ∀ {s : Str}, Clean s → CleanL (splitOnChar c s)
  | [], _ => by simp [splitOnChar]
  | x :: xs, h => by
    have hx := clean_cons.1 h
    have ih := splitOnChar_clean c hx.2
    unfold splitOnChar
    split
    · simp
    · rename_i q qs heq
      rw [heq] at ih
      have ih' := cleanL_cons.1 ih
      split
      · exact cleanL_cons.2 ⟨clean_nil, ih⟩
      · exact cleanL_cons.2 ⟨clean_cons.2 ⟨hx.1, ih'.1⟩, ih'.2⟩

/-- splitting AT the line feed produces clean pieces whatever the input -/
theorem splitOnChar_nl_clean : ∀ (s : Str), CleanL (splitOnChar nl s)
  | [] => by simp [splitOnChar]
  | x :: xs => by
    have ih := splitOnChar_nl_clean xs
    unfold splitOnChar
    split
    · simp
    · rename_i q qs heq
      rw [heq] at ih
      have ih' := cleanL_cons.1 ih
      split
      · exact cleanL_cons.2 ⟨clean_nil, ih⟩
      · rename_i hne
        exact cleanL_cons.2 ⟨clean_cons.2 ⟨hne, ih'.1⟩, ih'.2⟩

theorem splitTerminator_clean (s : Str) : CleanL (splitTerminator s) := by
  unfold splitTerminator
  have h : CleanL (splitOnChar '\n' s) := splitOnChar_nl_clean s
  simp only
  split
  · exact h.subset (fun _ hs => (List.dropLast_sublist _).subset hs)
  · exact h

theorem splitAsciiWhitespace_clean {s : Str} (h : Clean s) : CleanL (splitAsciiWhitespace s) :=
  (splitOnPred_clean _ h).filter _

theorem splitComma_clean {s : Str} (h : Clean s) : CleanL (splitComma s) := splitOnChar_clean _ h

theorem trimStart_clean {s : Str} (h : Clean s) : Clean (trimStart s) := h.dropWhile _

theorem toNat_ofNat_small (n : Nat) (h : n < 200) : (Char.ofNat n).toNat = n := by
  unfold Char.ofNat
  have : n.isValidChar := by left; omega
  simp [this, Char.toNat, Char.ofNatAux]

theorem asciiUpperChar_ne {c : Char} (h : c ≠ nl) : asciiUpperChar c ≠ nl := by
  unfold asciiUpperChar
  split
  · rename_i h1
    intro h2
    have h3 : (Char.ofNat (c.toNat - 32)).toNat = 10 := by rw [h2]; rfl
    have h5 : c.toNat ≤ 122 := h1.2
    have h4 := toNat_ofNat_small (c.toNat - 32) (by omega)
    have : 97 ≤ c.toNat := h1.1
    omega
  · exact h

theorem asciiUpper_clean {s : Str} (h : Clean s) : Clean (asciiUpper s) := by
  rw [clean_iff] at h ⊢
  intro c hc
  simp only [asciiUpper, List.mem_map] at hc
  obtain ⟨d, hd, rfl⟩ := hc
  exact asciiUpperChar_ne (h d hd)

/-! ### the message parser -/

theorem splitTrailing_clean : ∀ (prev : Char) {s : Str}, Clean s →
    Clean (splitTrailing prev s).1 ∧ CleanO (splitTrailing prev s).2
  | _, [], _ => by simp [splitTrailing]
  | prev, c :: cs, h => by
    have hc := clean_cons.1 h
    unfold splitTrailing
    split
    · exact ⟨clean_nil, cleanO_some.2 hc.2⟩
    · have ih := splitTrailing_clean c hc.2
      exact ⟨clean_cons.2 ⟨hc.1, ih.1⟩, ih.2⟩

theorem finish_clean {src : Option Str} {words : List Str} {lp : Option Str} {m : Message}
    (hs : CleanO src) (hw : CleanL words) (hl : CleanO lp)
    (h : Message.finish src words lp = .ok m) : CleanMsg m := by
  unfold Message.finish at h
  split at h
  · cases h
  · rename_i cmd ps
    cases h
    have hw' := cleanL_cons.1 hw
    refine ⟨hw'.1, ?_, hs⟩
    cases lp with
    | none => exact hw'.2
    | some l => exact cleanL_append.2 ⟨hw'.2, cleanL_cons.2 ⟨cleanO_some.1 hl, cleanL_nil⟩⟩

/-- every piece of a parsed line is a piece of the line -/
theorem parse_cleanMsg {l : Str} {m : Message} (hl : Clean l) (h : Message.parse l = .ok m) :
    CleanMsg m := by
  unfold Message.parse at h
  have ht := trimStart_clean hl
  split at h
  · cases h
  · rename_i c0 cs heq
    rw [heq] at ht
    have hc := clean_cons.1 ht
    have hr := splitTrailing_clean c0 hc.2
    have hrest : Clean (c0 :: (splitTrailing c0 cs).1) := clean_cons.2 ⟨hc.1, hr.1⟩
    have hwords := splitAsciiWhitespace_clean hrest
    simp only at h
    split at h
    · split at h
      · cases h
      · rename_i w ws hweq
        rw [hweq] at hwords
        have hw' := cleanL_cons.1 hwords
        split at h
        · cases h
        · exact finish_clean (cleanO_some.2 (hw'.1.drop 1)) hw'.2 hr.2 h
    · exact finish_clean cleanO_none hwords hr.2 h

/-! ### `Message.render` -/

theorem renderParams_clean : ∀ {ps : List Str}, CleanL ps → Clean (renderParams ps)
  | [], _ => clean_nil
  | [last], h => by
    have := h last (List.mem_cons_self ..)
    unfold renderParams
    split <;> simp (config := { decide := true }) [this]
  | p :: q :: rest, h => by
    have h' := cleanL_cons.1 h
    unfold renderParams
    exact clean_cons.2 ⟨by decide, clean_append.2 ⟨h'.1, renderParams_clean h'.2⟩⟩

theorem render_clean' {m : Message} {src : Str} (hs : Clean src) (hc : Clean m.command)
    (hp : CleanL m.params) : Clean (m.render src) := by
  simp (config := { decide := true }) [Message.render, hs, hc, renderParams_clean hp]

theorem CleanMsg.render {m : Message} (hm : CleanMsg m) {src : Str} (hs : Clean src) :
    Clean (m.render src) := render_clean' hs hm.command hm.params

/-! ### `normalizeSourcemask` -/

theorem normalizeSourcemask_clean {s : Str} (h : Clean s) : Clean (normalizeSourcemask s) := by
  unfold normalizeSourcemask
  split
  · split
    · exact clean_append.2 ⟨h, by decide⟩
    · exact h
  · split
    · exact clean_append.2 ⟨clean_append.2 ⟨h.take _, by decide⟩, h.drop _⟩
    · exact clean_append.2 ⟨h, by decide⟩

theorem joinWith_clean_iff {sep : Str} (hsep : Clean sep) : ∀ {l : List Str}, Clean (joinWith sep l) ↔ CleanL l
  | [] => by simp [joinWith]
  | [x] => by simp [joinWith]
  | x :: y :: rest => by
    have ih := @joinWith_clean_iff sep hsep (y :: rest)
    unfold joinWith
    simp only [clean_append, hsep, and_true, ih, cleanL_cons]

@[simp] theorem joinWith_space_clean {l : List Str} : Clean (joinWith (str " ") l) ↔ CleanL l :=
  joinWith_clean_iff (by decide)

theorem cleanL_map {α : Type} {f : α → Str} {l : List α} : CleanL (l.map f) ↔ ∀ a ∈ l, Clean (f a) := by
  simp [CleanL]

/-- ONE tactic for the whole reply table: unfold the definition, split the concatenation,
    decide the literal pieces. -/
syntax "reply_tac " ident : tactic
macro_rules
  | `(tactic| reply_tac $n:ident) => `(tactic|
      (first
        | (simp (config := { decide := true }) [$n:ident, and_assoc, cleanL_map]; done)
        | (simp (config := { decide := true }) [$n:ident, and_assoc, and_comm, and_left_comm]; done)
        | (unfold $n; split <;> simp (config := { decide := true }) [and_assoc]; done)))

theorem whoisChan_clean (c : Option Str × Str) :
    Clean (match c.1 with | some p => p ++ c.2 | none => c.2) ↔ CleanO c.1 ∧ Clean c.2 := by
  obtain ⟨a, b⟩ := c
  cases a <;> simp

@[simp] theorem RplWelcome001_clean (client networkname nick user host : Str) :
    Clean (RplWelcome001 client networkname nick user host) ↔ Clean client ∧ Clean networkname ∧ Clean nick ∧ Clean user ∧ Clean host := by reply_tac RplWelcome001
@[simp] theorem RplYourHost002_clean (client servername version : Str) :
    Clean (RplYourHost002 client servername version) ↔ Clean client ∧ Clean servername ∧ Clean version := by reply_tac RplYourHost002
@[simp] theorem RplCreated003_clean (client datetime : Str) :
    Clean (RplCreated003 client datetime) ↔ Clean client ∧ Clean datetime := by reply_tac RplCreated003
@[simp] theorem RplMyInfo004_clean (client servername version avail_user_modes avail_chmodes : Str) (avail_chmodes_with_params : Option Str) :
    Clean (RplMyInfo004 client servername version avail_user_modes avail_chmodes avail_chmodes_with_params) ↔ Clean client ∧ Clean servername ∧ Clean version ∧ Clean avail_user_modes ∧ Clean avail_chmodes ∧ CleanO avail_chmodes_with_params := by reply_tac RplMyInfo004
@[simp] theorem RplISupport005_clean (client tokens : Str) :
    Clean (RplISupport005 client tokens) ↔ Clean client ∧ Clean tokens := by reply_tac RplISupport005
@[simp] theorem RplStatsCommands212_clean (client command : Str) (count : Nat) :
    Clean (RplStatsCommands212 client command count) ↔ Clean client ∧ Clean command := by reply_tac RplStatsCommands212
@[simp] theorem RplEndOfStats219_clean (client : Str) (stat : Char) :
    Clean (RplEndOfStats219 client stat) ↔ Clean client ∧ stat ≠ nl := by reply_tac RplEndOfStats219
@[simp] theorem RplUModeIs221_clean (client user_modes : Str) :
    Clean (RplUModeIs221 client user_modes) ↔ Clean client ∧ Clean user_modes := by reply_tac RplUModeIs221
@[simp] theorem RplStatsUptime242_clean (client : Str) (seconds : Nat) :
    Clean (RplStatsUptime242 client seconds) ↔ Clean client := by reply_tac RplStatsUptime242
@[simp] theorem RplLUserClient251_clean (client : Str) (users_num inv_users_num servers_num : Nat) :
    Clean (RplLUserClient251 client users_num inv_users_num servers_num) ↔ Clean client := by reply_tac RplLUserClient251
@[simp] theorem RplLUserOp252_clean (client : Str) (ops_num : Nat) :
    Clean (RplLUserOp252 client ops_num) ↔ Clean client := by reply_tac RplLUserOp252
@[simp] theorem RplLUserUnknown253_clean (client : Str) (conns_num : Nat) :
    Clean (RplLUserUnknown253 client conns_num) ↔ Clean client := by reply_tac RplLUserUnknown253
@[simp] theorem RplLUserChannels254_clean (client : Str) (channels_num : Nat) :
    Clean (RplLUserChannels254 client channels_num) ↔ Clean client := by reply_tac RplLUserChannels254
@[simp] theorem RplLUserMe255_clean (client : Str) (clients_num servers_num : Nat) :
    Clean (RplLUserMe255 client clients_num servers_num) ↔ Clean client := by reply_tac RplLUserMe255
@[simp] theorem RplAdminMe256_clean (client server : Str) :
    Clean (RplAdminMe256 client server) ↔ Clean client ∧ Clean server := by reply_tac RplAdminMe256
@[simp] theorem RplAdminLoc1257_clean (client info : Str) :
    Clean (RplAdminLoc1257 client info) ↔ Clean client ∧ Clean info := by reply_tac RplAdminLoc1257
@[simp] theorem RplAdminLoc2258_clean (client info : Str) :
    Clean (RplAdminLoc2258 client info) ↔ Clean client ∧ Clean info := by reply_tac RplAdminLoc2258
@[simp] theorem RplAdminEmail259_clean (client email : Str) :
    Clean (RplAdminEmail259 client email) ↔ Clean client ∧ Clean email := by reply_tac RplAdminEmail259
@[simp] theorem RplLocalUsers265_clean (client : Str) (clients_num max_clients_num : Nat) :
    Clean (RplLocalUsers265 client clients_num max_clients_num) ↔ Clean client := by reply_tac RplLocalUsers265
@[simp] theorem RplGlobalUsers266_clean (client : Str) (clients_num max_clients_num : Nat) :
    Clean (RplGlobalUsers266 client clients_num max_clients_num) ↔ Clean client := by reply_tac RplGlobalUsers266
@[simp] theorem RplAway301_clean (client nick message : Str) :
    Clean (RplAway301 client nick message) ↔ Clean client ∧ Clean nick ∧ Clean message := by reply_tac RplAway301
@[simp] theorem RplUserHost302_clean (client : Str) (replies : List Str) :
    Clean (RplUserHost302 client replies) ↔ Clean client ∧ CleanL replies := by reply_tac RplUserHost302
@[simp] theorem RplIson303_clean (client : Str) (nicknames : List Str) :
    Clean (RplIson303 client nicknames) ↔ Clean client ∧ CleanL nicknames := by reply_tac RplIson303
@[simp] theorem RplUnAway305_clean (client : Str) :
    Clean (RplUnAway305 client) ↔ Clean client := by reply_tac RplUnAway305
@[simp] theorem RplNowAway306_clean (client : Str) :
    Clean (RplNowAway306 client) ↔ Clean client := by reply_tac RplNowAway306
@[simp] theorem RplWhoReply352_clean (client channel username host server nick flags : Str) (hopcount : Nat) (realname : Str) :
    Clean (RplWhoReply352 client channel username host server nick flags hopcount realname) ↔ Clean client ∧ Clean channel ∧ Clean username ∧ Clean host ∧ Clean server ∧ Clean nick ∧ Clean flags ∧ Clean realname := by reply_tac RplWhoReply352
@[simp] theorem RplEndOfWho315_clean (client mask : Str) :
    Clean (RplEndOfWho315 client mask) ↔ Clean client ∧ Clean mask := by reply_tac RplEndOfWho315
@[simp] theorem RplWhoIsRegNick307_clean (client nick : Str) :
    Clean (RplWhoIsRegNick307 client nick) ↔ Clean client ∧ Clean nick := by reply_tac RplWhoIsRegNick307
@[simp] theorem RplWhoIsUser311_clean (client nick username host realname : Str) :
    Clean (RplWhoIsUser311 client nick username host realname) ↔ Clean client ∧ Clean nick ∧ Clean username ∧ Clean host ∧ Clean realname := by reply_tac RplWhoIsUser311
@[simp] theorem RplWhoIsServer312_clean (client nick server server_info : Str) :
    Clean (RplWhoIsServer312 client nick server server_info) ↔ Clean client ∧ Clean nick ∧ Clean server ∧ Clean server_info := by reply_tac RplWhoIsServer312
@[simp] theorem RplWhoIsOperator313_clean (client nick : Str) :
    Clean (RplWhoIsOperator313 client nick) ↔ Clean client ∧ Clean nick := by reply_tac RplWhoIsOperator313
@[simp] theorem RplWhoWasUser314_clean (client nick username host realname : Str) :
    Clean (RplWhoWasUser314 client nick username host realname) ↔ Clean client ∧ Clean nick ∧ Clean username ∧ Clean host ∧ Clean realname := by reply_tac RplWhoWasUser314
@[simp] theorem RplwhoIsIdle317_clean (client nick : Str) (secs signon : Nat) :
    Clean (RplwhoIsIdle317 client nick secs signon) ↔ Clean client ∧ Clean nick := by reply_tac RplwhoIsIdle317
@[simp] theorem RplEndOfWhoIs318_clean (client nick : Str) :
    Clean (RplEndOfWhoIs318 client nick) ↔ Clean client ∧ Clean nick := by reply_tac RplEndOfWhoIs318
@[simp] theorem RplWhoIsChannels319_clean (client nick : Str) (channels : List (Option Str × Str)) :
    Clean (RplWhoIsChannels319 client nick channels) ↔ Clean client ∧ Clean nick ∧ (∀ p ∈ channels, CleanO p.1 ∧ Clean p.2) := by
  simp (config := { decide := true }) only [RplWhoIsChannels319, clean_append, joinWith_space_clean, cleanL_map, true_and, and_assoc]
  constructor
  · rintro ⟨h1, h2, h3⟩; exact ⟨h1, h2, fun a ha => (whoisChan_clean a).1 (h3 a ha)⟩
  · rintro ⟨h1, h2, h3⟩; exact ⟨h1, h2, fun a ha => (whoisChan_clean a).2 (h3 a ha)⟩
@[simp] theorem RplListStart321_clean (client : Str) :
    Clean (RplListStart321 client) ↔ Clean client := by reply_tac RplListStart321
@[simp] theorem RplList322_clean (client channel : Str) (client_count : Nat) (topic : Str) :
    Clean (RplList322 client channel client_count topic) ↔ Clean client ∧ Clean channel ∧ Clean topic := by reply_tac RplList322
@[simp] theorem RplListEnd323_clean (client : Str) :
    Clean (RplListEnd323 client) ↔ Clean client := by reply_tac RplListEnd323
@[simp] theorem RplChannelModeIs324_clean (client channel modestring : Str) :
    Clean (RplChannelModeIs324 client channel modestring) ↔ Clean client ∧ Clean channel ∧ Clean modestring := by reply_tac RplChannelModeIs324
@[simp] theorem RplCreationTime329_clean (client channel : Str) (creation_time : Nat) :
    Clean (RplCreationTime329 client channel creation_time) ↔ Clean client ∧ Clean channel := by reply_tac RplCreationTime329
@[simp] theorem RplNoTopic331_clean (client channel : Str) :
    Clean (RplNoTopic331 client channel) ↔ Clean client ∧ Clean channel := by reply_tac RplNoTopic331
@[simp] theorem RplTopic332_clean (client channel topic : Str) :
    Clean (RplTopic332 client channel topic) ↔ Clean client ∧ Clean channel ∧ Clean topic := by reply_tac RplTopic332
@[simp] theorem RplTopicWhoTime333_clean (client channel nick : Str) (setat : Nat) :
    Clean (RplTopicWhoTime333 client channel nick setat) ↔ Clean client ∧ Clean channel ∧ Clean nick := by reply_tac RplTopicWhoTime333
@[simp] theorem RplInviting341_clean (client nick channel : Str) :
    Clean (RplInviting341 client nick channel) ↔ Clean client ∧ Clean nick ∧ Clean channel := by reply_tac RplInviting341
@[simp] theorem RplInviteList346_clean (client channel mask : Str) :
    Clean (RplInviteList346 client channel mask) ↔ Clean client ∧ Clean channel ∧ Clean mask := by reply_tac RplInviteList346
@[simp] theorem RplEndOfInviteList347_clean (client channel : Str) :
    Clean (RplEndOfInviteList347 client channel) ↔ Clean client ∧ Clean channel := by reply_tac RplEndOfInviteList347
@[simp] theorem RplExceptList348_clean (client channel mask : Str) :
    Clean (RplExceptList348 client channel mask) ↔ Clean client ∧ Clean channel ∧ Clean mask := by reply_tac RplExceptList348
@[simp] theorem RplEndOfExceptList349_clean (client channel : Str) :
    Clean (RplEndOfExceptList349 client channel) ↔ Clean client ∧ Clean channel := by reply_tac RplEndOfExceptList349
@[simp] theorem RplVersion351_clean (client version server comments : Str) :
    Clean (RplVersion351 client version server comments) ↔ Clean client ∧ Clean version ∧ Clean server ∧ Clean comments := by reply_tac RplVersion351
@[simp] theorem RplNameReply353_clean (client symbol channel : Str) (replies : List (Str × Str)) :
    Clean (RplNameReply353 client symbol channel replies) ↔ Clean client ∧ Clean symbol ∧ Clean channel ∧ (∀ p ∈ replies, Clean p.1 ∧ Clean p.2) := by reply_tac RplNameReply353
@[simp] theorem RplEndOfNames366_clean (client channel : Str) :
    Clean (RplEndOfNames366 client channel) ↔ Clean client ∧ Clean channel := by reply_tac RplEndOfNames366
@[simp] theorem RplLinks364_clean (client mask server : Str) (hop_count : Nat) (server_info : Str) :
    Clean (RplLinks364 client mask server hop_count server_info) ↔ Clean client ∧ Clean mask ∧ Clean server ∧ Clean server_info := by reply_tac RplLinks364
@[simp] theorem RplEndOfLinks365_clean (client mask : Str) :
    Clean (RplEndOfLinks365 client mask) ↔ Clean client ∧ Clean mask := by reply_tac RplEndOfLinks365
@[simp] theorem RplBanList367_clean (client channel mask who : Str) (set_ts : Nat) :
    Clean (RplBanList367 client channel mask who set_ts) ↔ Clean client ∧ Clean channel ∧ Clean mask ∧ Clean who := by reply_tac RplBanList367
@[simp] theorem RplEndOfBanList368_clean (client channel : Str) :
    Clean (RplEndOfBanList368 client channel) ↔ Clean client ∧ Clean channel := by reply_tac RplEndOfBanList368
@[simp] theorem RplEndOfWhoWas369_clean (client nick : Str) :
    Clean (RplEndOfWhoWas369 client nick) ↔ Clean client ∧ Clean nick := by reply_tac RplEndOfWhoWas369
@[simp] theorem RplInfo371_clean (client info : Str) :
    Clean (RplInfo371 client info) ↔ Clean client ∧ Clean info := by reply_tac RplInfo371
@[simp] theorem RplEndOfInfo374_clean (client : Str) :
    Clean (RplEndOfInfo374 client) ↔ Clean client := by reply_tac RplEndOfInfo374
@[simp] theorem RplMotdStart375_clean (client server : Str) :
    Clean (RplMotdStart375 client server) ↔ Clean client ∧ Clean server := by reply_tac RplMotdStart375
@[simp] theorem RplMotd372_clean (client motd : Str) :
    Clean (RplMotd372 client motd) ↔ Clean client ∧ Clean motd := by reply_tac RplMotd372
@[simp] theorem RplEndOfMotd376_clean (client : Str) :
    Clean (RplEndOfMotd376 client) ↔ Clean client := by reply_tac RplEndOfMotd376
@[simp] theorem RplWhoIsHost378_clean (client nick host_info : Str) :
    Clean (RplWhoIsHost378 client nick host_info) ↔ Clean client ∧ Clean nick ∧ Clean host_info := by reply_tac RplWhoIsHost378
@[simp] theorem RplWhoIsModes379_clean (client nick modes : Str) :
    Clean (RplWhoIsModes379 client nick modes) ↔ Clean client ∧ Clean nick ∧ Clean modes := by reply_tac RplWhoIsModes379
@[simp] theorem RplYoureOper381_clean (client : Str) :
    Clean (RplYoureOper381 client) ↔ Clean client := by reply_tac RplYoureOper381
@[simp] theorem RplTime391_clean (client server : Str) (timestamp : Nat) (ts_offset human_readable : Str) :
    Clean (RplTime391 client server timestamp ts_offset human_readable) ↔ Clean client ∧ Clean server ∧ Clean ts_offset ∧ Clean human_readable := by reply_tac RplTime391
@[simp] theorem ErrUnknownError400_clean (client command : Str) (subcommand : Option Str) (info : Str) :
    Clean (ErrUnknownError400 client command subcommand info) ↔ Clean client ∧ Clean command ∧ CleanO subcommand ∧ Clean info := by reply_tac ErrUnknownError400
@[simp] theorem ErrNoSuchNick401_clean (client nick : Str) :
    Clean (ErrNoSuchNick401 client nick) ↔ Clean client ∧ Clean nick := by reply_tac ErrNoSuchNick401
@[simp] theorem ErrNoSuchChannel403_clean (client channel : Str) :
    Clean (ErrNoSuchChannel403 client channel) ↔ Clean client ∧ Clean channel := by reply_tac ErrNoSuchChannel403
@[simp] theorem ErrCannotSendToChain404_clean (client channel : Str) :
    Clean (ErrCannotSendToChain404 client channel) ↔ Clean client ∧ Clean channel := by reply_tac ErrCannotSendToChain404
@[simp] theorem ErrTooManyChannels405_clean (client channel : Str) :
    Clean (ErrTooManyChannels405 client channel) ↔ Clean client ∧ Clean channel := by reply_tac ErrTooManyChannels405
@[simp] theorem ErrWasNoSuchNick406_clean (client nick : Str) :
    Clean (ErrWasNoSuchNick406 client nick) ↔ Clean client ∧ Clean nick := by reply_tac ErrWasNoSuchNick406
@[simp] theorem ErrInputTooLong417_clean (client : Str) :
    Clean (ErrInputTooLong417 client) ↔ Clean client := by reply_tac ErrInputTooLong417
@[simp] theorem ErrUnknownCommand421_clean (client command : Str) :
    Clean (ErrUnknownCommand421 client command) ↔ Clean client ∧ Clean command := by reply_tac ErrUnknownCommand421
@[simp] theorem ErrNicknameInUse433_clean (client nick : Str) :
    Clean (ErrNicknameInUse433 client nick) ↔ Clean client ∧ Clean nick := by reply_tac ErrNicknameInUse433
@[simp] theorem ErrUserNotInChannel441_clean (client nick channel : Str) :
    Clean (ErrUserNotInChannel441 client nick channel) ↔ Clean client ∧ Clean nick ∧ Clean channel := by reply_tac ErrUserNotInChannel441
@[simp] theorem ErrNotOnChannel442_clean (client channel : Str) :
    Clean (ErrNotOnChannel442 client channel) ↔ Clean client ∧ Clean channel := by reply_tac ErrNotOnChannel442
@[simp] theorem ErrUserOnChannel443_clean (client nick channel : Str) :
    Clean (ErrUserOnChannel443 client nick channel) ↔ Clean client ∧ Clean nick ∧ Clean channel := by reply_tac ErrUserOnChannel443
@[simp] theorem ErrNotRegistered451_clean (client : Str) :
    Clean (ErrNotRegistered451 client) ↔ Clean client := by reply_tac ErrNotRegistered451
@[simp] theorem ErrNeedMoreParams461_clean (client command : Str) :
    Clean (ErrNeedMoreParams461 client command) ↔ Clean client ∧ Clean command := by reply_tac ErrNeedMoreParams461
@[simp] theorem ErrAlreadyRegistered462_clean (client : Str) :
    Clean (ErrAlreadyRegistered462 client) ↔ Clean client := by reply_tac ErrAlreadyRegistered462
@[simp] theorem ErrPasswdMismatch464_clean (client : Str) :
    Clean (ErrPasswdMismatch464 client) ↔ Clean client := by reply_tac ErrPasswdMismatch464
@[simp] theorem ErrChannelIsFull471_clean (client channel : Str) :
    Clean (ErrChannelIsFull471 client channel) ↔ Clean client ∧ Clean channel := by reply_tac ErrChannelIsFull471
@[simp] theorem ErrUnknownMode472_clean (client : Str) (modechar : Char) (channel : Str) :
    Clean (ErrUnknownMode472 client modechar channel) ↔ Clean client ∧ modechar ≠ nl ∧ Clean channel := by reply_tac ErrUnknownMode472
@[simp] theorem ErrInviteOnlyChan473_clean (client channel : Str) :
    Clean (ErrInviteOnlyChan473 client channel) ↔ Clean client ∧ Clean channel := by reply_tac ErrInviteOnlyChan473
@[simp] theorem ErrBannedFromChan474_clean (client channel : Str) :
    Clean (ErrBannedFromChan474 client channel) ↔ Clean client ∧ Clean channel := by reply_tac ErrBannedFromChan474
@[simp] theorem ErrBadChannelKey475_clean (client channel : Str) :
    Clean (ErrBadChannelKey475 client channel) ↔ Clean client ∧ Clean channel := by reply_tac ErrBadChannelKey475
@[simp] theorem ErrNoPrivileges481_clean (client : Str) :
    Clean (ErrNoPrivileges481 client) ↔ Clean client := by reply_tac ErrNoPrivileges481
@[simp] theorem ErrChanOpPrivsNeeded482_clean (client channel : Str) :
    Clean (ErrChanOpPrivsNeeded482 client channel) ↔ Clean client ∧ Clean channel := by reply_tac ErrChanOpPrivsNeeded482
@[simp] theorem ErrCantKillServer483_clean (client : Str) :
    Clean (ErrCantKillServer483 client) ↔ Clean client := by reply_tac ErrCantKillServer483
@[simp] theorem ErrYourConnRestricted484_clean (client : Str) :
    Clean (ErrYourConnRestricted484 client) ↔ Clean client := by reply_tac ErrYourConnRestricted484
@[simp] theorem ErrNoOperHost491_clean (client : Str) :
    Clean (ErrNoOperHost491 client) ↔ Clean client := by reply_tac ErrNoOperHost491
@[simp] theorem ErrUmodeUnknownFlag501_clean (client : Str) :
    Clean (ErrUmodeUnknownFlag501 client) ↔ Clean client := by reply_tac ErrUmodeUnknownFlag501
@[simp] theorem ErrUsersDontMatch502_clean (client : Str) :
    Clean (ErrUsersDontMatch502 client) ↔ Clean client := by reply_tac ErrUsersDontMatch502
@[simp] theorem ErrHelpNotFound524_clean (client subject : Str) :
    Clean (ErrHelpNotFound524 client subject) ↔ Clean client ∧ Clean subject := by reply_tac ErrHelpNotFound524
@[simp] theorem RplWhoIsSecure671_clean (client nick : Str) :
    Clean (RplWhoIsSecure671 client nick) ↔ Clean client ∧ Clean nick := by reply_tac RplWhoIsSecure671
@[simp] theorem ErrInvalidModeParam696_clean (client target : Str) (modechar : Char) (param description : Str) :
    Clean (ErrInvalidModeParam696 client target modechar param description) ↔ Clean client ∧ Clean target ∧ modechar ≠ nl ∧ Clean param ∧ Clean description := by reply_tac ErrInvalidModeParam696
@[simp] theorem RplHelpStart704_clean (client subject line : Str) :
    Clean (RplHelpStart704 client subject line) ↔ Clean client ∧ Clean subject ∧ Clean line := by reply_tac RplHelpStart704
@[simp] theorem RplHelpTxt705_clean (client subject line : Str) :
    Clean (RplHelpTxt705 client subject line) ↔ Clean client ∧ Clean subject ∧ Clean line := by reply_tac RplHelpTxt705
@[simp] theorem RplEndOfHelp706_clean (client subject line : Str) :
    Clean (RplEndOfHelp706 client subject line) ↔ Clean client ∧ Clean subject ∧ Clean line := by reply_tac RplEndOfHelp706
@[simp] theorem ErrCannotDoCommand972_clean (client : Str) :
    Clean (ErrCannotDoCommand972 client) ↔ Clean client := by reply_tac ErrCannotDoCommand972

set_option linter.unusedSimpArgs false

/-! ### command fields -/

def CleanGroups (ms : List (Str × List Str)) : Prop := ∀ g ∈ ms, Clean g.1 ∧ CleanL g.2

/-- every `Str` (and `Char`) field of a command is clean -/
def CleanCmd : Command → Prop
  | .CAP _ caps _ => ∀ cs, caps = some cs → CleanL cs
  | .AUTHENTICATE => True
  | .PASS p => Clean p
  | .NICK n => Clean n
  | .USER u h s r => Clean u ∧ Clean h ∧ Clean s ∧ Clean r
  | .PING t => Clean t
  | .PONG t => Clean t
  | .OPER n p => Clean n ∧ Clean p
  | .QUIT => True
  | .JOIN chs keys => CleanL chs ∧ ∀ ks, keys = some ks → CleanL ks
  | .PART chs r => CleanL chs ∧ CleanO r
  | .TOPIC ch t => Clean ch ∧ CleanO t
  | .NAMES chs => CleanL chs
  | .LIST chs s => CleanL chs ∧ CleanO s
  | .INVITE n ch => Clean n ∧ Clean ch
  | .KICK ch us cm => Clean ch ∧ CleanL us ∧ CleanO cm
  | .MOTD t => CleanO t
  | .VERSION t => CleanO t
  | .ADMIN t => CleanO t
  | .CONNECT t _ r => Clean t ∧ CleanO r
  | .LUSERS => True
  | .TIME s => CleanO s
  | .STATS q s => q ≠ nl ∧ CleanO s
  | .LINKS r m => CleanO r ∧ CleanO m
  | .HELP s => CleanO s
  | .INFO => True
  | .MODE t ms => Clean t ∧ CleanGroups ms
  | .PRIVMSG ts t => CleanL ts ∧ Clean t
  | .NOTICE ts t => CleanL ts ∧ Clean t
  | .WHO m => Clean m
  | .WHOIS t ns => CleanO t ∧ CleanL ns
  | .WHOWAS n _ s => Clean n ∧ CleanO s
  | .KILL n cm => Clean n ∧ Clean cm
  | .REHASH => True
  | .RESTART => True
  | .SQUIT s cm => Clean s ∧ Clean cm
  | .AWAY t => CleanO t
  | .USERHOST ns => CleanL ns
  | .WALLOPS t => Clean t
  | .ISON ns => CleanL ns
  | .DIE m => CleanO m

/-- every `Str` / `Char` a command error carries is clean -/
def CleanErr : CommandError → Prop
  | .unknownCommand s => Clean s
  | .unknownSubcommand _ s => Clean s
  | .unknownMode _ c ch => c ≠ nl ∧ Clean ch
  | .invalidModeParam t c p d => Clean t ∧ c ≠ nl ∧ Clean p ∧ Clean d
  | _ => True

def CleanRes : Except CommandError Command → Prop
  | .ok c => CleanCmd c
  | .error e => CleanErr e

theorem groupModes_clean : ∀ {rest : List Str} {ms : Str} {acc : List Str},
    Clean ms → CleanL acc → CleanL rest → CleanGroups (groupModes ms acc rest)
  | [], ms, acc, h1, h2, _ => by
    intro g hg
    simp only [groupModes, List.mem_singleton] at hg
    subst hg; exact ⟨h1, h2.reverse⟩
  | s :: rest, ms, acc, h1, h2, h3 => by
    have h3' := cleanL_cons.1 h3
    unfold groupModes
    split
    · intro g hg
      rcases List.mem_cons.1 hg with rfl | hg
      · exact ⟨h1, h2.reverse⟩
      · exact groupModes_clean h3'.1 cleanL_nil h3'.2 g hg
    · exact groupModes_clean h1 (cleanL_cons.2 ⟨h3'.1, h2⟩) h3'.2

theorem parseNumParam_cleanRes {max : Nat} {s : Str} {e : CommandError} {f : Nat → Command}
    (he : CleanErr e) (hf : ∀ n, CleanCmd (f n)) :
    CleanRes (match parseNumParam max s e with | .ok v => .ok (f v) | .error e => .error e) := by
  unfold parseNumParam
  cases parseUnsigned max s <;> simp [CleanRes, *]

theorem parseNumParam_error {max : Nat} {s : Str} {e e' : CommandError}
    (h : parseNumParam max s e = .error e') : e' = e := by
  unfold parseNumParam at h
  split at h
  · cases h
  · cases h; rfl

theorem cleanL_of_map_head {f : Str → List Str} {l cs : List Str} (hl : CleanL l)
    (hf : ∀ s, Clean s → CleanL (f s)) (h : Option.map f l.head? = some cs) : CleanL cs := by
  cases l with
  | nil => cases h
  | cons a l => cases h; exact hf a (cleanL_cons.1 hl).1

@[simp] theorem cleanGroups_nil : CleanGroups [] := by intro g hg; cases hg

theorem head?_cleanO {l : List Str} (h : CleanL l) : CleanO l.head? := h.head?

theorem parseFromMessage_cleanRes {m : Message} (hm : CleanMsg m) :
    CleanRes (Command.parseFromMessage m) := by
  obtain ⟨src, cmd, ps⟩ := m
  have hc : Clean cmd := hm.command
  have hp : CleanL ps := hm.params
  unfold Command.parseFromMessage
  simp only
  split
  · exact asciiUpper_clean hc
  · rename_i id _
    cases id <;> simp only
    all_goals (repeat' split)
    all_goals (try simp only [cleanL_cons] at hp)
    all_goals (try (simp [CleanRes, CleanCmd, CleanErr, splitComma_clean, CleanL.head?, *]; done))
    all_goals first
      | (have hpe := parseNumParam_error ‹parseNumParam _ _ _ = _›; subst hpe; simp [CleanRes, CleanErr]; done)
      | exact fun cs h => cleanL_of_map_head hp.2 (fun _ => splitAsciiWhitespace_clean) h
      | exact ⟨splitComma_clean hp.1, fun cs h => cleanL_of_map_head hp.2 (fun _ => splitComma_clean) h⟩
      | exact ⟨(clean_cons.1 hp.1).1, hp.2.head?⟩
      | exact ⟨hp.1, cleanGroups_nil⟩
      | exact ⟨hp.1, groupModes_clean hp.2.1 cleanL_nil hp.2.2⟩

theorem validationErrorToString_clean {c : Str} (h : Clean c) : Clean (validationErrorToString c) := by
  simp (config := { decide := true }) [validationErrorToString, h]

theorem validateUsernameErr_clean {u code : Str} (h : validateUsernameErr u = some code) : Clean code := by
  unfold validateUsernameErr at h
  repeat' split at h
  all_goals (cases h <;> decide)

theorem IntErr.render_clean (e : IntErr) : Clean e.render := by cases e <;> decide

theorem chanModeChars_err {target : Str} {i : Nat} {e : CommandError} (ht : Clean target) :
    ∀ {ms : Str} {b : Bool} {args : List Str}, Clean ms → CleanL args →
      chanModeChars target i b args ms = .error e → CleanErr e
  | [], _, _, _, _, h => by simp [chanModeChars] at h
  | c :: cs, b, args, hms, hargs, h => by
    have hc := clean_cons.1 hms
    have ih := fun b args ha => @chanModeChars_err target i e ht cs b args hc.2 ha
    unfold chanModeChars at h
    repeat' split at h
    all_goals first
      | exact ih _ _ hargs h
      | exact ih _ _ (hargs.drop 1) h
      | exact ih _ _ cleanL_nil h
      | exact ih _ _ (cleanL_cons.1 hargs).2 h
      | (cases h; simp (config := { decide := true }) [CleanErr, ht, hc.1, noArgument, unexpectedArgument]; done)
      | (cases h
         simp (config := { decide := true }) [CleanErr, ht, hc.1, noArgument, unexpectedArgument, (cleanL_cons.1 hargs).1,
           IntErr.render_clean]
         try exact validationErrorToString_clean (validateUsernameErr_clean ‹_›))

theorem validateUsermodesFrom_err {e : CommandError} : ∀ {ms : List (Str × List Str)} {i : Nat},
    validateUsermodesFrom i ms = .error e → CleanErr e
  | [], _, h => by simp [validateUsermodesFrom] at h
  | (m, a) :: rest, i, h => by
    unfold validateUsermodesFrom at h
    repeat' split at h
    all_goals first
      | exact validateUsermodesFrom_err h
      | (cases h; simp [CleanErr]; done)

theorem validateChannelmodesFrom_err {target : Str} {e : CommandError} (ht : Clean target) :
    ∀ {ms : List (Str × List Str)} {i : Nat}, CleanGroups ms →
      validateChannelmodesFrom target i ms = .error e → CleanErr e
  | [], _, _, h => by simp [validateChannelmodesFrom] at h
  | (m, a) :: rest, i, hg, h => by
    have h1 := hg (m, a) (List.mem_cons_self ..)
    have h2 : CleanGroups rest := fun g hgm => hg g (List.mem_cons_of_mem _ hgm)
    unfold validateChannelmodesFrom at h
    repeat' split at h
    all_goals first
      | exact validateChannelmodesFrom_err ht h2 h
      | (cases h; exact chanModeChars_err ht h1.1 h1.2 ‹_›)
      | (cases h; simp [CleanErr]; done)

theorem check_err {b : Bool} {e e' : CommandError} (h : check b e = .error e') : e' = e := by
  unfold check at h; split at h <;> cases h; rfl
theorem checkAll_err {f : Str → Bool} {xs : List Str} {e e' : CommandError}
    (h : checkAll f xs e = .error e') : e' = e := check_err h
theorem checkOpt_err {f : Str → Bool} {o : Option Str} {e e' : CommandError}
    (h : checkOpt f o e = .error e') : e' = e := by
  unfold checkOpt at h; split at h
  · exact check_err h
  · cases h
theorem checkUserhost_err {e : CommandError} : ∀ {ns : List Str} {i : Nat},
    checkUserhost i ns = .error e → CleanErr e
  | [], _, h => by simp [checkUserhost] at h
  | n :: ns, i, h => by
    unfold checkUserhost at h
    split at h
    · exact checkUserhost_err h
    · cases h; simp [CleanErr]

theorem bind_err {e : CommandError} {a : Except CommandError Unit}
    {b : Unit → Except CommandError Unit} (h : (a >>= b) = .error e) :
    a = .error e ∨ b () = .error e := by
  cases a with
  | error x => left; simpa [bind, Except.bind] using h
  | ok u => right; simpa [bind, Except.bind] using h

theorem wp_clean (c : CmdId) (i : Nat) : CleanErr (.wrongParameter c i) := trivial

syntax "verr " ident : tactic
macro_rules
  | `(tactic| verr $h:ident) => `(tactic| first
      | (cases $h:ident; done)
      | (rw [check_err $h]; exact wp_clean _ _)
      | (rw [checkAll_err $h]; exact wp_clean _ _)
      | (rw [checkOpt_err $h]; exact wp_clean _ _)
      | exact checkUserhost_err $h
      | (cases $h:ident; exact wp_clean _ _)
      | (rcases bind_err $h with hL | hR
         · verr hL
         · verr hR))

theorem validate_err {cmd : Command} {e : CommandError} (hc : CleanCmd cmd)
    (h : cmd.validate = .error e) : CleanErr e := by
  cases cmd <;> simp only [Command.validate] at h
  all_goals (try (repeat' split at h))
  all_goals first
    | verr h
    | exact validateChannelmodesFrom_err hc.1 hc.2 h
    | exact validateUsermodesFrom_err h

theorem fromMessage_ok {m : Message} {cmd : Command} (hm : CleanMsg m)
    (h : Command.fromMessage m = .ok cmd) : CleanCmd cmd := by
  have hp := parseFromMessage_cleanRes hm
  unfold Command.fromMessage at h
  split at h
  · rename_i x hx
    rw [hx] at hp
    split at h
    · cases h; exact hp
    · cases h
  · cases h

theorem fromMessage_err {m : Message} {e : CommandError} (hm : CleanMsg m)
    (h : Command.fromMessage m = .error e) : CleanErr e := by
  have hp := parseFromMessage_cleanRes hm
  unfold Command.fromMessage at h
  split at h
  · rename_i x hx
    rw [hx] at hp
    split at h
    · cases h
    · rename_i e' he'
      cases h; exact validate_err hp he'
  · rename_i e' he'
    rw [he'] at hp
    cases h; exact hp

@[simp] theorem CmdId.name_clean (c : CmdId) : Clean c.name := by cases c <;> decide

/-- `CommandError.render` of an error produced from a clean message is clean -/
theorem CommandError.render_clean {e : CommandError} (he : CleanErr e) : Clean e.render := by
  cases e <;> simp (config := { decide := true }) [CommandError.render, CleanErr] at he ⊢ <;> simp [*]

theorem commandErrorReply_clean {client : Str} {e : CommandError} (hc : Clean client)
    (he : CleanErr e) : Clean (commandErrorReply client e) := by
  have hr := CommandError.render_clean he
  cases e <;> simp (config := { decide := true }) [commandErrorReply, CleanErr, hc] at he hr ⊢ <;> simp [*]

/-! ## 2. Maps, sets, world operations -/

theorem CleanL.mem {l : List Str} (h : CleanL l) {s : Str} (hs : s ∈ l) : Clean s := h s hs

theorem mem_of_lookup {α : Type} {k : Str} {v : α} : ∀ {m : Map α}, Map.lookup k m = some v → (k, v) ∈ m
  | [], h => by cases h
  | (k', v') :: rest, h => by
    unfold Map.lookup at h
    split at h
    · rename_i hk; cases h; subst hk; exact List.mem_cons_self ..
    · exact List.mem_cons_of_mem _ (mem_of_lookup h)

section CleanMap
variable {α : Type} {P : α → Prop}

@[simp] theorem cleanMap_nil : CleanMap P ([] : Map α) := by intro p hp; cases hp

theorem CleanMap.cons {k : Str} {v : α} {m : Map α} (hk : Clean k) (hv : P v) (h : CleanMap P m) :
    CleanMap P ((k, v) :: m) := by
  intro p hp
  rcases List.mem_cons.1 hp with rfl | hp
  · exact ⟨hk, hv⟩
  · exact h p hp

theorem CleanMap.tail {p : Str × α} {m : Map α} (h : CleanMap P (p :: m)) : CleanMap P m :=
  fun q hq => h q (List.mem_cons_of_mem _ hq)

theorem CleanMap.lookup {m : Map α} (h : CleanMap P m) {k : Str} {v : α}
    (hl : Map.lookup k m = some v) : P v := (h _ (mem_of_lookup hl)).2

theorem CleanMap.key_of_lookup {m : Map α} (h : CleanMap P m) {k : Str} {v : α}
    (hl : Map.lookup k m = some v) : Clean k := (h _ (mem_of_lookup hl)).1

theorem CleanMap.insert {m : Map α} (h : CleanMap P m) {k : Str} {v : α} (hk : Clean k) (hv : P v) :
    CleanMap P (Map.insert k v m) := by
  induction m with
  | nil => exact CleanMap.cons hk hv cleanMap_nil
  | cons p rest ih =>
    obtain ⟨k', v'⟩ := p
    unfold Map.insert
    split
    · exact CleanMap.cons hk hv h.tail
    · exact CleanMap.cons (h _ (List.mem_cons_self ..)).1 (h _ (List.mem_cons_self ..)).2 (ih h.tail)

theorem CleanMap.erase {m : Map α} (h : CleanMap P m) (k : Str) : CleanMap P (Map.erase k m) := by
  induction m with
  | nil => exact cleanMap_nil
  | cons p rest ih =>
    obtain ⟨k', v'⟩ := p
    unfold Map.erase
    split
    · exact ih h.tail
    · exact CleanMap.cons (h _ (List.mem_cons_self ..)).1 (h _ (List.mem_cons_self ..)).2 (ih h.tail)

theorem CleanMap.modify {m : Map α} (h : CleanMap P m) (k : Str) {f : α → α}
    (hf : ∀ v, P v → P (f v)) : CleanMap P (Map.modify k f m) := by
  induction m with
  | nil => exact cleanMap_nil
  | cons p rest ih =>
    obtain ⟨k', v'⟩ := p
    have h0 := h _ (List.mem_cons_self ..)
    unfold Map.modify
    split
    · exact CleanMap.cons h0.1 (hf _ h0.2) h.tail
    · exact CleanMap.cons h0.1 h0.2 (ih h.tail)

theorem CleanMap.keys {m : Map α} (h : CleanMap P m) : CleanL (Map.keys m) := by
  intro s hs
  simp only [Map.keys, List.mem_map] at hs
  obtain ⟨p, hp, rfl⟩ := hs
  exact (h p hp).1

theorem CleanMap.mem_key {m : Map α} (h : CleanMap P m) {p : Str × α} (hp : p ∈ m) : Clean p.1 := (h p hp).1
theorem CleanMap.mem_val {m : Map α} (h : CleanMap P m) {p : Str × α} (hp : p ∈ m) : P p.2 := (h p hp).2
theorem CleanMap.mem_key' {m : Map α} (h : CleanMap P m) {k : Str} {v : α} (hp : (k, v) ∈ m) : Clean k := (h _ hp).1
theorem CleanMap.mem_val' {m : Map α} (h : CleanMap P m) {k : Str} {v : α} (hp : (k, v) ∈ m) : P v := (h _ hp).2
end CleanMap

theorem CleanL.kinsert {s : KSet} (h : CleanL s) {k : Str} (hk : Clean k) : CleanL (KSet.insert k s) := by
  unfold KSet.insert
  split
  · exact h
  · exact cleanL_append.2 ⟨h, cleanL_cons.2 ⟨hk, cleanL_nil⟩⟩
theorem CleanL.kerase {s : KSet} (h : CleanL s) (k : Str) : CleanL (KSet.erase k s) := h.filter _

/-! ### misc renderings -/

theorem prefixStr_clean (m : ChanUserModes) (b : Bool) : Clean (m.prefixStr b) := by
  unfold ChanUserModes.prefixStr
  simp only
  repeat' split
  all_goals simp (config := { decide := true })

theorem UserModes.render_clean (m : UserModes) : Clean m.render := by
  unfold UserModes.render UserModes.letters
  simp only [clean_cons, clean_append]
  refine ⟨by decide, ?_⟩
  repeat' constructor
  all_goals (split <;> simp (config := { decide := true }))

theorem flagLetters_clean (m : ChannelModes) : Clean m.flagLetters := by
  unfold ChannelModes.flagLetters
  simp only [clean_append]
  repeat' constructor
  all_goals (split <;> simp (config := { decide := true }))

theorem foldl_tag_clean {tag : Str} (ht : Clean tag) : ∀ {xs : List Str} {s : Str}, CleanL xs → Clean s →
    Clean (xs.foldl (fun s e => s ++ tag ++ e) s)
  | [], _, _, hs => hs
  | e :: xs, s, hx, hs => by
    have hx' := cleanL_cons.1 hx
    simp only [List.foldl_cons]
    exact foldl_tag_clean ht hx'.2 (clean_append.2 ⟨clean_append.2 ⟨hs, ht⟩, hx'.1⟩)

theorem ChannelModes.render_clean {m : ChannelModes} (h : CleanModes m) : Clean m.render := by
  unfold ChannelModes.render
  simp only
  refine foldl_tag_clean (by decide) h.voices ?_
  refine foldl_tag_clean (by decide) h.halfOperators ?_
  refine foldl_tag_clean (by decide) h.operators ?_
  refine foldl_tag_clean (by decide) h.protecteds ?_
  refine foldl_tag_clean (by decide) h.founders ?_
  refine foldl_tag_clean (by decide) h.inviteException ?_
  refine foldl_tag_clean (by decide) h.exception ?_
  refine foldl_tag_clean (by decide) h.ban ?_
  have hk := h.key
  have hf := flagLetters_clean m
  cases hkey : m.key with
  | none => cases m.clientLimit <;> simp (config := { decide := true }) [hf]
  | some k =>
    rw [hkey] at hk
    have := cleanO_some.1 hk
    cases m.clientLimit <;> simp (config := { decide := true }) [hf, this]

theorem insertSorted_clean {x : Str} (hx : Clean x) : ∀ {l : List Str}, CleanL l → CleanL (insertSorted x l)
  | [], _ => cleanL_cons.2 ⟨hx, cleanL_nil⟩
  | y :: ys, h => by
    have h' := cleanL_cons.1 h
    unfold insertSorted
    split
    · exact cleanL_cons.2 ⟨hx, h⟩
    · exact cleanL_cons.2 ⟨h'.1, insertSorted_clean hx h'.2⟩

theorem sortStrs_clean : ∀ {l : List Str}, CleanL l → CleanL (sortStrs l)
  | [], _ => by simp [sortStrs]
  | x :: xs, h => by
    have h' := cleanL_cons.1 h
    simp only [sortStrs, List.foldr_cons]
    exact insertSorted_clean h'.1 (sortStrs_clean h'.2)

theorem mem_chunksAux {α : Type} {n : Nat} : ∀ {fuel : Nat} {xs : List α} {ch : List α} {a : α},
    ch ∈ chunksAux n fuel xs → a ∈ ch → a ∈ xs
  | 0, _, _, _, h, _ => by simp [chunksAux] at h
  | fuel + 1, [], _, _, h, _ => by simp [chunksAux] at h
  | fuel + 1, x :: xs, ch, a, h, ha => by
    unfold chunksAux at h
    rcases List.mem_cons.1 h with rfl | h
    · exact List.mem_of_mem_take ha
    · exact List.mem_of_mem_drop (mem_chunksAux h ha)

theorem mem_chunks {α : Type} {n : Nat} {xs ch : List α} {a : α} (h : ch ∈ chunks n xs) (ha : a ∈ ch) :
    a ∈ xs := by
  unfold chunks at h
  split at h
  · cases h
  · exact mem_chunksAux h ha

theorem chunks_cleanL {n : Nat} {xs ch : List Str} (hx : CleanL xs) (h : ch ∈ chunks n xs) : CleanL ch :=
  fun _ hs => hx _ (mem_chunks h hs)

theorem supportTokens_clean {cfg : Cfg} (h : CleanCfg cfg) : CleanL (supportTokens cfg) := by
  unfold supportTokens
  simp only [cleanL_append, cleanL_cons, cleanL_nil, clean_append, h.network, and_true]
  refine ⟨⟨⟨⟨by decide, ?_⟩, by decide⟩, by decide⟩, by decide⟩
  split <;> simp (config := { decide := true })

theorem helpTopics_clean {t content : Str} (_h : (t, content) ∈ helpTopics) :
    CleanL (splitTerminator content) := splitTerminator_clean _

/-! ### connections -/

theorem CleanConn.of_eq {cn cn' : Conn} (h : CleanConn cn) (e1 : cn'.hostname = cn.hostname)
    (e2 : cn'.nick = cn.nick) (e3 : cn'.name = cn.name) (e4 : cn'.realname = cn.realname)
    (e5 : cn'.password = cn.password) (e6 : cn'.source = cn.source)
    (e7 : cn'.killedBy = cn.killedBy) : CleanConn cn' :=
  ⟨e1 ▸ h.hostname, e2 ▸ h.nick, e3 ▸ h.name, e4 ▸ h.realname, e5 ▸ h.password, e6 ▸ h.source,
   e7 ▸ h.killedBy⟩

/-- a connection record that differs from a clean one only in flags -/
macro "conn_frame" : tactic =>
  `(tactic| (refine CleanConn.of_eq (by assumption) ?_ ?_ ?_ ?_ ?_ ?_ ?_ <;> rfl))

theorem Conn.new_clean (c : Nat) {ip : Str} (hip : Clean ip) : CleanConn (Conn.new c ip) := by
  refine ⟨hip, ?_, ?_, ?_, ?_, ?_, ?_⟩ <;> simp (config := { decide := true }) [Conn.new, hip]

theorem clientName_clean {cn : Conn} (h : CleanConn cn) : Clean cn.clientName := by
  unfold Conn.clientName
  split
  · exact h.nick _ ‹_›
  · split
    · exact h.name _ ‹_›
    · exact h.hostname

theorem updateSource_clean {cn : Conn} (h : CleanConn cn) : CleanConn cn.updateSource := by
  have hs : Clean cn.updateSource.source := by
    unfold Conn.updateSource
    simp only [clean_append, clean_cons, h.hostname, and_true]
    refine ⟨⟨?_, ?_⟩, by decide⟩
    · split
      · exact clean_append.2 ⟨h.nick _ ‹_›, by decide⟩
      · exact clean_nil
    · split
      · exact clean_cons.2 ⟨by decide, h.name _ ‹_›⟩
      · exact clean_nil
  exact ⟨h.hostname, h.nick, h.name, h.realname, h.password, hs, h.killedBy⟩

theorem setNick_clean {cn : Conn} (h : CleanConn cn) {n : Str} (hn : Clean n) : CleanConn (cn.setNick n) := by
  unfold Conn.setNick
  exact updateSource_clean ⟨h.hostname, cleanO_some.2 hn, h.name, h.realname, h.password, h.source, h.killedBy⟩

theorem setName_clean {cn : Conn} (h : CleanConn cn) {n : Str} (hn : Clean n) : CleanConn (cn.setName n) := by
  unfold Conn.setName
  exact updateSource_clean ⟨h.hostname, h.nick, cleanO_some.2 hn, h.realname, h.password, h.source, h.killedBy⟩

/-! ### world -/

theorem CleanWorld.of_eq {w w' : World} (h : CleanWorld w) (e1 : w'.users = w.users)
    (e2 : w'.channels = w.channels) (e3 : w'.wallops = w.wallops) (e4 : w'.histories = w.histories)
    (e5 : w'.conns = w.conns) : CleanWorld w' :=
  ⟨e1 ▸ h.users, e2 ▸ h.channels, e3 ▸ h.wallops, e4 ▸ h.histories, e5 ▸ h.conns⟩

/-- a world that differs from a clean one only in counters / flags -/
macro "world_frame" : tactic =>
  `(tactic| (refine CleanWorld.of_eq (by assumption) ?_ ?_ ?_ ?_ ?_ <;> rfl))

theorem cw_users {w : World} (h : CleanWorld w) {us : Map User} (hu : CleanMap CleanUser us) :
    CleanWorld { w with users := us } := ⟨hu, h.channels, h.wallops, h.histories, h.conns⟩
theorem cw_channels {w : World} (h : CleanWorld w) {cs : Map Channel} (hc : CleanMap CleanChan cs) :
    CleanWorld { w with channels := cs } := ⟨h.users, hc, h.wallops, h.histories, h.conns⟩
theorem cw_wallops {w : World} (h : CleanWorld w) {ws : KSet} (hw : CleanL ws) :
    CleanWorld { w with wallops := ws } := ⟨h.users, h.channels, hw, h.histories, h.conns⟩
theorem cw_histories {w : World} (h : CleanWorld w) {hs : Map (List HistEntry)}
    (hh : CleanMap (fun h => ∀ e ∈ h, CleanHist e) hs) :
    CleanWorld { w with histories := hs } := ⟨h.users, h.channels, h.wallops, hh, h.conns⟩

theorem cw_panic {w : World} (h : CleanWorld w) (s : String) : CleanWorld (w.panic s) :=
  h.of_eq rfl rfl rfl rfl rfl

theorem cw_conn? {w : World} (h : CleanWorld w) {c : Nat} {cn : Conn} (hc : w.conn? c = some cn) :
    CleanConn cn := h.conns cn (List.mem_of_find?_eq_some hc)

theorem cw_setConn {w : World} (h : CleanWorld w) {cn : Conn} (hc : CleanConn cn) :
    CleanWorld (w.setConn cn) := by
  refine ⟨h.users, h.channels, h.wallops, h.histories, ?_⟩
  intro x hx
  simp only [World.setConn, List.mem_map] at hx
  obtain ⟨y, hy, rfl⟩ := hx
  split
  · exact hc
  · exact h.conns y hy

theorem cw_user {w : World} (h : CleanWorld w) {k : Str} {u : User}
    (hl : Map.lookup k w.users = some u) : CleanUser u := h.users.lookup hl
theorem cw_chan {w : World} (h : CleanWorld w) {k : Str} {ch : Channel}
    (hl : Map.lookup k w.channels = some ch) : CleanChan ch := h.channels.lookup hl
theorem cw_hist {w : World} (h : CleanWorld w) {k : Str} {hs : List HistEntry}
    (hl : Map.lookup k w.histories = some hs) : ∀ e ∈ hs, CleanHist e := h.histories.lookup hl

theorem bumpCount_clean {w : World} (h : CleanWorld w) (i : Nat) : CleanWorld (bumpCount w i) :=
  h.of_eq rfl rfl rfl rfl rfl

/-! ## 3. Context operations -/

theorem cc_conn {x : Ctx} (hx : CleanCtx x) (c : Nat) : CleanConn (x.conn c) := by
  unfold Ctx.conn
  cases h : x.w.conn? c with
  | none => exact Conn.new_clean c clean_nil
  | some cn => exact cw_conn? hx.w h

theorem cc_clientName {x : Ctx} (hx : CleanCtx x) (c : Nat) : Clean (x.conn c).clientName :=
  clientName_clean (cc_conn hx c)

theorem line_clean {a t : Str} (ha : Clean a) (ht : Clean t) : Clean (':' :: (a ++ ' ' :: t)) := by
  simp (config := { decide := true }) [ha, ht]

theorem cc_reply {cfg : Cfg} {x : Ctx} {t : Str} (hcfg : CleanCfg cfg) (hx : CleanCtx x)
    (ht : Clean t) : CleanCtx (x.reply cfg t) :=
  ⟨hx.w, cleanL_append.2 ⟨hx.direct, cleanL_cons.2 ⟨line_clean hcfg.name ht, cleanL_nil⟩⟩, hx.queued⟩

theorem cc_replySrc {x : Ctx} {src t : Str} (hx : CleanCtx x) (hs : Clean src)
    (ht : Clean t) : CleanCtx (x.replySrc src t) :=
  ⟨hx.w, cleanL_append.2 ⟨hx.direct, cleanL_cons.2 ⟨line_clean hs ht, cleanL_nil⟩⟩, hx.queued⟩

theorem cc_panic {x : Ctx} (hx : CleanCtx x) (s : String) : CleanCtx (x.panic s) :=
  ⟨cw_panic hx.w s, hx.direct, hx.queued⟩

theorem cc_send {x : Ctx} {nick line : Str} (hx : CleanCtx x) (hl : Clean line) :
    CleanCtx (x.send nick line) := by
  unfold Ctx.send
  split
  · refine ⟨hx.w, hx.direct, ?_⟩
    intro p hp
    rcases List.mem_append.1 hp with hp | hp
    · exact hx.queued p hp
    · simp only [List.mem_singleton] at hp; subst hp; exact hl
  · exact ⟨cw_panic hx.w _, hx.direct, hx.queued⟩

theorem cc_sendDisplay {x : Ctx} {nick src t : Str} (hx : CleanCtx x) (hs : Clean src)
    (ht : Clean t) : CleanCtx (x.sendDisplay nick src t) := cc_send hx (line_clean hs ht)

theorem cc_foldl {α : Type} {f : Ctx → α → Ctx} {l : List α}
    (hf : ∀ x a, a ∈ l → CleanCtx x → CleanCtx (f x a)) {x : Ctx} (hx : CleanCtx x) :
    CleanCtx (l.foldl f x) := by
  induction l generalizing x with
  | nil => exact hx
  | cons a l ih =>
    simp only [List.foldl_cons]
    exact ih (fun x b hb => hf x b (List.mem_cons_of_mem _ hb)) (hf x a (List.mem_cons_self ..) hx)

theorem cc_sendAll {x : Ctx} {nicks : List Str} {line : Str} (hx : CleanCtx x) (hl : Clean line) :
    CleanCtx (x.sendAll nicks line) := cc_foldl (fun _ _ _ h => cc_send h hl) hx

theorem cc_setConn {x : Ctx} {cn : Conn} (hx : CleanCtx x) (hc : CleanConn cn) :
    CleanCtx (x.setConn cn) := ⟨cw_setConn hx.w hc, hx.direct, hx.queued⟩

theorem cc_modifyW {x : Ctx} {f : World → World} (hx : CleanCtx x) (hf : CleanWorld (f x.w)) :
    CleanCtx (x.modifyW f) := ⟨hf, hx.direct, hx.queued⟩

/-- world-only change of a context record -/
theorem cc_withW {x : Ctx} {w : World} (hx : CleanCtx x) (hw : CleanWorld w) :
    CleanCtx { x with w := w } := ⟨hw, hx.direct, hx.queued⟩

/-! ## 4. Tactics for the handler proofs -/

theorem CleanL.mem' {l : List Str} {s : Str} (hs : s ∈ l) (h : CleanL l) : Clean s := h s hs
theorem CleanO.of_eq' {o : Option Str} {s : Str} (e : o = some s) (h : CleanO o) : Clean s := h s e
theorem cw_user' {w : World} {k : Str} {u : User} (hl : Map.lookup k w.users = some u)
    (h : CleanWorld w) : CleanUser u := cw_user h hl
theorem cw_chan' {w : World} {k : Str} {ch : Channel} (hl : Map.lookup k w.channels = some ch)
    (h : CleanWorld w) : CleanChan ch := cw_chan h hl
theorem cw_userKey' {w : World} {k : Str} {u : User} (hl : Map.lookup k w.users = some u)
    (h : CleanWorld w) : Clean k := h.users.key_of_lookup hl
theorem cw_chanKey' {w : World} {k : Str} {ch : Channel} (hl : Map.lookup k w.channels = some ch)
    (h : CleanWorld w) : Clean k := h.channels.key_of_lookup hl
theorem CleanChan.topic' {ch : Channel} {t : Topic} (e : ch.topic = some t) (h : CleanChan ch) :
    CleanTopic t := h.topic t e
theorem CleanMap.memKey' {α : Type} {P : α → Prop} {m : Map α} {k : Str} {v : α} (hp : (k, v) ∈ m)
    (h : CleanMap P m) : Clean k := (h _ hp).1
theorem cw_memUser' {w : World} {k : Str} {u : User} (hp : (k, u) ∈ w.users) (h : CleanWorld w) :
    CleanUser u := (h.users _ hp).2
theorem cw_memChan' {w : World} {k : Str} {ch : Channel} (hp : (k, ch) ∈ w.channels)
    (h : CleanWorld w) : CleanChan ch := (h.channels _ hp).2
theorem CleanUser.awayOf {u : User} {a : Str} (e : u.away = some a) (h : CleanUser u) : Clean a :=
  h.away a e

@[simp] theorem joinWith_space_clean' {l : List Str} : Clean (joinWith [' '] l) ↔ CleanL l :=
  joinWith_clean_iff (by decide)
@[simp] theorem joinWith_comma_clean' {l : List Str} : Clean (joinWith [','] l) ↔ CleanL l :=
  joinWith_clean_iff (by decide)
theorem chunks_cleanL' {n : Nat} {xs ch : List Str} (h : ch ∈ chunks n xs) (hx : CleanL xs) : CleanL ch :=
  chunks_cleanL hx h

/-- split a `Clean` goal about a concatenation / reply into atomic `Clean` goals;
    literal pieces are decided -/
macro "clean_simp" : tactic => `(tactic|
  simp only [clean_nil, clean_cons, clean_append, cleanO_none,
      cleanO_some, cleanL_nil, cleanL_cons, cleanL_append, natToStr_clean, padZero_clean,
      joinWith_space_clean, joinWith_space_clean', joinWith_comma_clean', cleanL_map, CmdId.name_clean, ne_eq, not_false_eq_true, true_and,
      and_true, and_self, List.cons_append, List.nil_append, List.append_assoc,
      RplWelcome001_clean, RplYourHost002_clean, RplCreated003_clean, RplMyInfo004_clean, RplISupport005_clean,
      RplStatsCommands212_clean, RplEndOfStats219_clean, RplUModeIs221_clean, RplStatsUptime242_clean, RplLUserClient251_clean,
      RplLUserOp252_clean, RplLUserUnknown253_clean, RplLUserChannels254_clean, RplLUserMe255_clean, RplAdminMe256_clean,
      RplAdminLoc1257_clean, RplAdminLoc2258_clean, RplAdminEmail259_clean, RplLocalUsers265_clean, RplGlobalUsers266_clean,
      RplAway301_clean, RplUserHost302_clean, RplIson303_clean, RplUnAway305_clean, RplNowAway306_clean,
      RplWhoReply352_clean, RplEndOfWho315_clean, RplWhoIsRegNick307_clean, RplWhoIsUser311_clean, RplWhoIsServer312_clean,
      RplWhoIsOperator313_clean, RplWhoWasUser314_clean, RplwhoIsIdle317_clean, RplEndOfWhoIs318_clean, RplWhoIsChannels319_clean,
      RplListStart321_clean, RplList322_clean, RplListEnd323_clean, RplChannelModeIs324_clean, RplCreationTime329_clean,
      RplNoTopic331_clean, RplTopic332_clean, RplTopicWhoTime333_clean, RplInviting341_clean, RplInviteList346_clean,
      RplEndOfInviteList347_clean, RplExceptList348_clean, RplEndOfExceptList349_clean, RplVersion351_clean, RplNameReply353_clean,
      RplEndOfNames366_clean, RplLinks364_clean, RplEndOfLinks365_clean, RplBanList367_clean, RplEndOfBanList368_clean,
      RplEndOfWhoWas369_clean, RplInfo371_clean, RplEndOfInfo374_clean, RplMotdStart375_clean, RplMotd372_clean,
      RplEndOfMotd376_clean, RplWhoIsHost378_clean, RplWhoIsModes379_clean, RplYoureOper381_clean, RplTime391_clean,
      ErrUnknownError400_clean, ErrNoSuchNick401_clean, ErrNoSuchChannel403_clean, ErrCannotSendToChain404_clean, ErrTooManyChannels405_clean,
      ErrWasNoSuchNick406_clean, ErrInputTooLong417_clean, ErrUnknownCommand421_clean, ErrNicknameInUse433_clean, ErrUserNotInChannel441_clean,
      ErrNotOnChannel442_clean, ErrUserOnChannel443_clean, ErrNotRegistered451_clean, ErrNeedMoreParams461_clean, ErrAlreadyRegistered462_clean,
      ErrPasswdMismatch464_clean, ErrChannelIsFull471_clean, ErrUnknownMode472_clean, ErrInviteOnlyChan473_clean, ErrBannedFromChan474_clean,
      ErrBadChannelKey475_clean, ErrNoPrivileges481_clean, ErrChanOpPrivsNeeded482_clean, ErrCantKillServer483_clean, ErrYourConnRestricted484_clean,
      ErrNoOperHost491_clean, ErrUmodeUnknownFlag501_clean, ErrUsersDontMatch502_clean, ErrHelpNotFound524_clean, RplWhoIsSecure671_clean,
      ErrInvalidModeParam696_clean, RplHelpStart704_clean, RplHelpTxt705_clean, RplEndOfHelp706_clean, ErrCannotDoCommand972_clean])

/-! goal-directed fact providers: each is a short, deterministic `first` chain (no search) -/

/-- `CleanWorld ?w` -/
syntax "cwf" : tactic
macro_rules | `(tactic| cwf) => `(tactic| first
  | assumption
  | exact CleanCtx.w (by assumption)
  | fail)

/-- `CleanConn ?cn` -/
syntax "cconn" : tactic
macro_rules | `(tactic| cconn) => `(tactic| first
  | assumption
  | exact cc_conn (by assumption) _
  | exact cw_conn? (by cwf) (by assumption)
  | exact setName_clean (by first | assumption | exact cc_conn (by assumption) _) (by assumption)
  | exact setNick_clean (by first | assumption | exact cc_conn (by assumption) _) (by assumption)
  | fail)

/-- `CleanUser ?u` -/
syntax "cuser" : tactic
macro_rules | `(tactic| cuser) => `(tactic| first
  | assumption
  | exact cw_user' (by assumption) (by cwf)
  | exact cw_memUser' (by assumption) (by cwf)
  | fail)

/-- `CleanChan ?ch` -/
syntax "cchan" : tactic
macro_rules | `(tactic| cchan) => `(tactic| first
  | assumption
  | exact cw_chan' (by assumption) (by cwf)
  | exact cw_memChan' (by assumption) (by cwf)
  | fail)

/-- `CleanTopic ?t` -/
syntax "ctopic" : tactic
macro_rules | `(tactic| ctopic) => `(tactic| first
  | assumption
  | exact CleanChan.topic' (by assumption) (by cchan)
  | fail)

/-- `CleanMap ?P ?m` -/
syntax "cmap" : tactic
macro_rules | `(tactic| cmap) => `(tactic| first
  | assumption
  | exact CleanWorld.users (by cwf)
  | exact CleanWorld.channels (by cwf)
  | exact CleanWorld.histories (by cwf)
  | exact CleanChan.users (by cchan)
  | exact CleanChan.banInfo (by cchan)
  | fail)

/-- `CleanModes ?m` -/
syntax "cmodes" : tactic
macro_rules | `(tactic| cmodes) => `(tactic| first
  | assumption
  | exact CleanChan.modes (by cchan)
  | fail)

/-- `CleanL ?l` -/
syntax "clist" : tactic
macro_rules | `(tactic| clist) => `(tactic| first
  | assumption
  | exact CleanUser.channels (by cuser)
  | exact CleanUser.invitedTo (by cuser)
  | exact CleanModes.ban (by cmodes)
  | exact CleanModes.exception (by cmodes)
  | exact CleanModes.inviteException (by cmodes)
  | exact CleanModes.operators (by cmodes)
  | exact CleanModes.halfOperators (by cmodes)
  | exact CleanModes.voices (by cmodes)
  | exact CleanModes.founders (by cmodes)
  | exact CleanModes.protecteds (by cmodes)
  | exact CleanDefault.operators (CleanChan.defaultModes (by cchan))
  | exact CleanDefault.halfOperators (CleanChan.defaultModes (by cchan))
  | exact CleanDefault.voices (CleanChan.defaultModes (by cchan))
  | exact CleanDefault.founders (CleanChan.defaultModes (by cchan))
  | exact CleanDefault.protecteds (CleanChan.defaultModes (by cchan))
  | exact CleanWorld.wallops (by cwf)
  | exact CleanMap.keys (by cmap)
  | exact CleanMsg.params (by assumption)
  | exact chunks_cleanL' (by assumption) (by clist)
  | exact CleanL.filter (by clist) _
  | fail)

/-- `CleanO ?o` -/
syntax "copt" : tactic
macro_rules | `(tactic| copt) => `(tactic| first
  | assumption
  | exact cleanO_none
  | exact CleanConn.nick (by cconn)
  | exact CleanConn.name (by cconn)
  | exact CleanConn.realname (by cconn)
  | exact CleanConn.password (by cconn)
  | exact CleanUser.away (by cuser)
  | exact CleanModes.key (by cmodes)
  | exact CleanCfg.adminInfo2 (by assumption)
  | exact CleanCfg.adminEmail (by assumption)
  | exact CleanMsg.source (by assumption)
  | exact CleanL.head? (by clist)
  | fail)

/-- an atomic `Clean s` goal: a stored / configured / received string -/
syntax "ca" : tactic
macro_rules | `(tactic| ca) => `(tactic| with_reducible first
  | assumption
  | exact clean_nil
  | exact natToStr_clean _
  | exact CleanO.of_eq' (by assumption) (by copt)
  | exact CleanO.getD (by copt) (by first | exact clean_nil | assumption | decide)
  | exact clientName_clean (by cconn)
  | exact CleanConn.hostname (by cconn)
  | exact CleanConn.source (by cconn)
  | exact CleanUser.hostname (by cuser)
  | exact CleanUser.name (by cuser)
  | exact CleanUser.realname (by cuser)
  | exact CleanUser.source (by cuser)
  | exact CleanHist.username (CleanUser.history (by cuser))
  | exact CleanHist.hostname (CleanUser.history (by cuser))
  | exact CleanHist.realname (CleanUser.history (by cuser))
  | exact CleanHist.username (by assumption)
  | exact CleanHist.hostname (by assumption)
  | exact CleanHist.realname (by assumption)
  | exact CleanTopic.topic (by ctopic)
  | exact CleanTopic.nick (by ctopic)
  | exact CleanCfg.name (by assumption)
  | exact CleanCfg.network (by assumption)
  | exact CleanCfg.info (by assumption)
  | exact CleanCfg.adminInfo (by assumption)
  | exact CleanCfg.motd (by assumption)
  | exact CleanMsg.command (by assumption)
  | exact CleanMsg.render (by assumption) (by first | assumption | exact CleanConn.source (by cconn))
  | exact cw_userKey' (by assumption) (by cwf)
  | exact cw_chanKey' (by assumption) (by cwf)
  | exact CleanMap.memKey' (by assumption) (by cmap)
  | exact CleanL.mem' (by assumption) (by clist)
  | exact prefixStr_clean _ _
  | exact UserModes.render_clean _
  | exact ChannelModes.render_clean (by cmodes)
  | exact normalizeSourcemask_clean (by assumption)
  | decide)

/-- close (or at least decompose) the non-`CleanCtx` side goals -/
macro "clean_side" : tactic => `(tactic|
  ((try clean_simp) <;> (try (repeat' apply And.intro)) <;>
    (first | ca | (with_reducible refine clientName_clean ?_; conn_frame) | clist | copt | skip)))

/-- one backward step on a `CleanCtx` / `CleanWorld` / `CleanMap` / `CleanL` / record goal.
    Extended with one rule per proved handler / world operation. -/
syntax "cc_step" : tactic
macro_rules | `(tactic| cc_step) => `(tactic| first
  | with_reducible assumption
  -- contexts
  | with_reducible refine cc_panic ?_ _
  | with_reducible refine cc_reply ‹CleanCfg _› ?_ ?_
  | with_reducible refine cc_replySrc ?_ ?_ ?_
  | with_reducible refine cc_sendDisplay ?_ ?_ ?_
  | with_reducible refine cc_send ?_ ?_
  | with_reducible refine cc_sendAll ?_ ?_
  | with_reducible refine cc_setConn ?_ ?_
  | (with_reducible refine cc_modifyW ?_ ?_) <;> (try dsimp only)
  | with_reducible refine cc_foldl (fun _ _ _ _ => ?_) ?_
  | (show CleanCtx _; split)
  -- worlds
  | exact CleanCtx.w (by assumption)
  | with_reducible refine cw_panic ?_ _
  | with_reducible refine cw_setConn ?_ ?_
  | with_reducible refine CleanCtx.w ?_
  | (show CleanWorld _; split)
  | (show CleanWorld _; refine ⟨?_, ?_, ?_, ?_, ?_⟩ <;> (try dsimp only))
  | exact CleanWorld.conns (by cwf)
  -- maps and sets
  | with_reducible refine CleanMap.insert ?_ ?_ ?_
  | with_reducible refine CleanMap.erase ?_ _
  | with_reducible refine CleanMap.modify ?_ _ (fun _ _ => ?_)
  | with_reducible refine CleanL.kinsert ?_ ?_
  | with_reducible refine CleanL.kerase ?_ _
  | with_reducible refine CleanL.filter ?_ _
  | (show CleanMap _ _; with_reducible cmap)
  | (show CleanL _; with_reducible clist)
  | with_reducible refine CleanWorld.users ?_
  | with_reducible refine CleanWorld.channels ?_
  | with_reducible refine CleanWorld.wallops ?_
  | with_reducible refine CleanWorld.histories ?_
  | with_reducible refine CleanWorld.conns ?_
  | (show CleanMap _ _; split)
  | (show CleanL _; split)
  -- records
  | exact CleanConn.killedBy (by cconn)
  | exact CleanChan.topic (by cchan)
  | (show CleanConn _; split)
  | (show Clean _; split)
  | (show CleanO _; split)
  | conn_frame
  | with_reducible refine setNick_clean ?_ ?_
  | with_reducible refine setName_clean ?_ ?_
  | (show CleanConn _; with_reducible cconn)
  | (show CleanConn _; refine ⟨?_, ?_, ?_, ?_, ?_, ?_, ?_⟩ <;> (try dsimp only))
  | (show CleanUser _; with_reducible cuser)
  | (show CleanUser _; refine ⟨?_, ?_, ?_, ?_, ?_, ?_, ?_, ?_⟩ <;> (try dsimp only))
  | (show CleanHist _; with_reducible first | assumption | exact CleanUser.history (by cuser))
  | (show CleanHist _; refine ⟨?_, ?_, ?_⟩ <;> (try dsimp only))
  | (show CleanChan _; with_reducible cchan)
  | (show CleanChan _; refine ⟨?_, ?_, ?_, ?_, ?_⟩ <;> (try dsimp only))
  | (show CleanModes _; with_reducible cmodes)
  | (show CleanModes _; refine ⟨?_, ?_, ?_, ?_, ?_, ?_, ?_, ?_, ?_⟩ <;> (try dsimp only))
  | (show CleanDefault _; exact CleanChan.defaultModes (by cchan))
  | (show CleanTopic _; with_reducible ctopic)
  | (show CleanTopic _; refine ⟨?_, ?_⟩ <;> (try dsimp only)))

macro "cc" : tactic => `(tactic| ((repeat' cc_step) <;> (try clean_side)))

/-! ## 5. HConn -/

theorem cc_sendIsupport {cfg : Cfg} {client : Str} {x : Ctx} (hcfg : CleanCfg cfg)
    (hc : Clean client) (hx : CleanCtx x) : CleanCtx (sendIsupport cfg client x) := by
  have := sortStrs_clean (supportTokens_clean hcfg)
  unfold sendIsupport
  cc
macro_rules | `(tactic| cc_step) => `(tactic| with_reducible refine cc_sendIsupport ‹CleanCfg _› ?_ ?_)

theorem cc_processLusers {cfg : Cfg} {client : Str} {x : Ctx} (hcfg : CleanCfg cfg)
    (hc : Clean client) (hx : CleanCtx x) : CleanCtx (processLusers cfg client x) := by
  unfold processLusers
  dsimp only
  cc
macro_rules | `(tactic| cc_step) => `(tactic| with_reducible refine cc_processLusers ‹CleanCfg _› ?_ ?_)

theorem cc_unsupported {cfg : Cfg} {client : Str} {command : String} {x : Ctx} (hcfg : CleanCfg cfg)
    (hc : Clean client) (hcmd : Clean command.toList) (hx : CleanCtx x) :
    CleanCtx (unsupported cfg client command x) := by
  unfold unsupported
  cc
macro_rules | `(tactic| cc_step) => `(tactic| with_reducible refine cc_unsupported ‹CleanCfg _› ?_ (by decide) ?_)

theorem cc_processMotd {cfg : Cfg} {client : Str} {target : Option Str} {x : Ctx} (hcfg : CleanCfg cfg)
    (hc : Clean client) (hx : CleanCtx x) : CleanCtx (processMotd cfg client target x) := by
  unfold processMotd
  cc
macro_rules | `(tactic| cc_step) => `(tactic| with_reducible refine cc_processMotd ‹CleanCfg _› ?_ ?_)

theorem cc_welcomeBurst {cfg : Cfg} {cn : Conn} {umodes : Str} {x : Ctx} (hcfg : CleanCfg cfg)
    (hcn : CleanConn cn) (hu : Clean umodes) (hx : CleanCtx x) :
    CleanCtx (welcomeBurst cfg cn umodes x) := by
  unfold welcomeBurst
  dsimp only
  cc


macro_rules | `(tactic| cc_step) => `(tactic| with_reducible refine cc_welcomeBurst ‹CleanCfg _› ?_ ?_ ?_)

/-! ### registration -/

theorem addUser_clean {w : World} {nick : Str} {u : User} (h : CleanWorld w) (hn : Clean nick)
    (hu : CleanUser u) : CleanWorld (w.addUser nick u) := by
  unfold World.addUser
  dsimp only
  repeat' split
  all_goals first
    | exact ⟨h.users.insert hn hu, h.channels, h.wallops.kinsert hn, h.histories, h.conns⟩
    | exact ⟨h.users.insert hn hu, h.channels, h.wallops, h.histories, h.conns⟩
macro_rules | `(tactic| cc_step) => `(tactic| with_reducible refine addUser_clean ?_ ?_ ?_)

theorem cc_authenticate {cfg : Cfg} {c : Nat} {x : Ctx} (hcfg : CleanCfg cfg) (hx : CleanCtx x) :
    CleanCtx (authenticate cfg c x) := by
  have hcn := cc_conn hx c
  unfold authenticate
  dsimp only
  cc
macro_rules | `(tactic| cc_step) => `(tactic| with_reducible refine cc_authenticate ‹CleanCfg _› ?_)

theorem cc_processCap {cfg : Cfg} {c : Nat} {sub : CapCommand} {caps : Option (List Str)} {x : Ctx}
    (hcfg : CleanCfg cfg) (hcaps : ∀ cs, caps = some cs → CleanL cs) (hx : CleanCtx x) :
    CleanCtx (processCap cfg c sub caps x) := by
  have hcn := cc_conn hx c
  cases caps with
  | none => unfold processCap; dsimp only; cc
  | some cs => have hcs := hcaps cs rfl; unfold processCap; dsimp only; cc

theorem cc_processAuthenticate {cfg : Cfg} {c : Nat} {x : Ctx} (hcfg : CleanCfg cfg) (hx : CleanCtx x) :
    CleanCtx (processAuthenticate cfg c x) := by
  unfold processAuthenticate
  cc

theorem cc_processPass {cfg : Cfg} {c : Nat} {pass : Str} {x : Ctx} (hcfg : CleanCfg cfg)
    (hp : Clean pass) (hx : CleanCtx x) : CleanCtx (processPass cfg c pass x) := by
  have hcn := cc_conn hx c
  unfold processPass
  dsimp only
  cc

theorem cc_processUser {cfg : Cfg} {c : Nat} {username realname : Str} {x : Ctx} (hcfg : CleanCfg cfg)
    (hu : Clean username) (hr : Clean realname) (hx : CleanCtx x) :
    CleanCtx (processUser cfg c username realname x) := by
  have hcn := cc_conn hx c
  unfold processUser
  dsimp only
  cc


/-! ### NICK -/

theorem renameIn_clean {old new : Str} {s : KSet} (hs : CleanL s) (hn : Clean new) :
    CleanL (renameIn old new s) := by
  unfold renameIn
  cc

theorem renameUser_clean {ch ch' : Channel} {old new : Str} (hch : CleanChan ch) (hn : Clean new)
    (h : ch.renameUser old new = some ch') : CleanChan ch' := by
  unfold Channel.renameUser at h
  split at h
  · cases h
  · cases h
    have hm := hch.modes
    refine ⟨hch.topic, ⟨hm.ban, hm.exception, hm.inviteException, hm.key, ?_, ?_, ?_, ?_, ?_⟩,
      hch.defaultModes, hch.banInfo, ?_⟩
    · exact renameIn_clean hm.operators hn
    · exact renameIn_clean hm.halfOperators hn
    · exact renameIn_clean hm.voices hn
    · exact renameIn_clean hm.founders hn
    · exact renameIn_clean hm.protecteds hn
    · exact (hch.users.erase _).insert hn trivial

theorem pushHistory_clean {w : World} {nick : Str} {e : HistEntry} (h : CleanWorld w) (hn : Clean nick)
    (he : CleanHist e) : CleanWorld (w.pushHistory nick e) := by
  unfold World.pushHistory
  refine cw_histories h (h.histories.insert hn ?_)
  intro e' he'
  rcases List.mem_append.1 he' with he' | he'
  · cases hl : Map.lookup nick w.histories with
    | none => rw [hl] at he'; cases he'
    | some l => rw [hl] at he'; exact cw_hist h hl e' he'
  · simp only [List.mem_singleton] at he'; subst he'; exact he
macro_rules | `(tactic| cc_step) => `(tactic| with_reducible refine pushHistory_clean ?_ ?_ ?_)

theorem renameInChannels_clean {old new : Str} (hn : Clean new) : ∀ {chs : List Str} {w : World},
    CleanWorld w → CleanWorld (renameInChannels old new chs w)
  | [], _, h => h
  | chn :: chs, w, h => by
    unfold renameInChannels
    simp only [List.foldl_cons]
    refine renameInChannels_clean hn ?_
    split
    · exact cw_panic h _
    · rename_i ch hl
      split
      · exact cw_panic h _
      · rename_i ch' hr
        exact cw_channels h (h.channels.insert (h.channels.key_of_lookup hl)
          (renameUser_clean (cw_chan h hl) hn hr))
macro_rules | `(tactic| cc_step) => `(tactic| with_reducible refine renameInChannels_clean ?_ ?_)

theorem cc_processNick {cfg : Cfg} {c : Nat} {nick : Str} {msg : Message} {x : Ctx} (hcfg : CleanCfg cfg)
    (hn : Clean nick) (hm : CleanMsg msg) (hx : CleanCtx x) : CleanCtx (processNick cfg c nick msg x) := by
  have hcn := cc_conn hx c
  unfold processNick
  dsimp only
  cc

theorem cc_processPing {cfg : Cfg} {c : Nat} {token : Str} {x : Ctx} (hcfg : CleanCfg cfg)
    (ht : Clean token) (hx : CleanCtx x) : CleanCtx (processPing cfg c token x) := by
  unfold processPing
  cc

theorem cc_processPong {cfg : Cfg} {c : Nat} {x : Ctx} (hx : CleanCtx x) :
    CleanCtx (processPong cfg c x) := by
  have hcn := cc_conn hx c
  unfold processPong
  cc

theorem cc_processOper {cfg : Cfg} {c : Nat} {name password : Str} {x : Ctx} (hcfg : CleanCfg cfg)
    (hx : CleanCtx x) : CleanCtx (processOper cfg c name password x) := by
  have hcn := cc_conn hx c
  unfold processOper
  dsimp only
  cc

theorem cc_processQuit {cfg : Cfg} {c : Nat} {x : Ctx} (hcfg : CleanCfg cfg) (hx : CleanCtx x) :
    CleanCtx (processQuit cfg c x) := by
  have hcn := cc_conn hx c
  unfold processQuit
  dsimp only
  cc

/-! ## 6. HChannel -/

theorem newOnUserJoin_clean {nick : Str} (hn : Clean nick) : CleanChan (Channel.newOnUserJoin nick) := by
  unfold Channel.newOnUserJoin
  refine CleanChan.mk (by intro t h; cases h) (CleanModes.mk ?_ ?_ ?_ ?_ ?_ ?_ ?_ ?_ ?_)
    (CleanDefault.mk ?_ ?_ ?_ ?_ ?_) cleanMap_nil (CleanMap.cons hn trivial cleanMap_nil) <;>
    simp [hn]

theorem Channel.addUser_clean {ch : Channel} {nick : Str} (hch : CleanChan ch) (hn : Clean nick) :
    CleanChan (ch.addUser nick) := by
  unfold Channel.addUser
  dsimp only
  cc

macro_rules | `(tactic| cchan) => `(tactic| first |
  exact Channel.addUser_clean (by first | assumption | exact cw_chan' (by assumption) (by cwf)) (by assumption) | fail)

theorem Channel.removeUser_clean {ch ch' : Channel} {nick : Str} (hch : CleanChan ch)
    (h : ch.removeUser nick = some ch') : CleanChan ch' := by
  unfold Channel.removeUser at h
  split at h
  · cases h
  · cases h
    cc

macro_rules | `(tactic| cchan) => `(tactic| first |
  exact Channel.removeUser_clean (by first | assumption | exact cw_chan' (by assumption) (by cwf)) (by assumption) | fail)

theorem removeUserFromChannel_clean {w : World} {channel nick : Str} (h : CleanWorld w) :
    CleanWorld (w.removeUserFromChannel channel nick) := by
  unfold World.removeUserFromChannel
  dsimp only
  cc
macro_rules | `(tactic| cc_step) => `(tactic| with_reducible refine removeUserFromChannel_clean ?_)


theorem foldl_removeUserFromChannel_clean {nick : Str} : ∀ {chs : List Str} {w : World}, CleanWorld w →
    CleanWorld (chs.foldl (fun w chn => w.removeUserFromChannel chn nick) w)
  | [], _, h => h
  | _ :: chs, _, h => by
    simp only [List.foldl_cons]
    exact foldl_removeUserFromChannel_clean (removeUserFromChannel_clean h)

theorem removeUser_clean {w : World} {nick : Str} (h : CleanWorld w) : CleanWorld (w.removeUser nick) := by
  unfold World.removeUser
  split
  · exact h
  · rename_i user hl
    have hu := cw_user h hl
    have hk := h.users.key_of_lookup hl
    dsimp only
    refine pushHistory_clean (foldl_removeUserFromChannel_clean ?_) hk hu.history
    cc
macro_rules | `(tactic| cc_step) => `(tactic| with_reducible refine removeUser_clean ?_)

/-! ### NAMES -/

theorem cc_namesLines {cfg : Cfg} {cn : Conn} {chname : Str} {ch : Channel} {users : Map User} {x : Ctx}
    (hcfg : CleanCfg cfg) (hcn : CleanConn cn) (hn : Clean chname) (hch : CleanChan ch)
    (hx : CleanCtx x) : CleanCtx (namesLines cfg cn chname ch users x) := by
  unfold namesLines
  dsimp only
  cc
  all_goals
    intro p hp
    have hm := mem_chunks ‹_ ∈ chunks _ _› hp
    simp only [List.mem_filterMap, List.mem_map] at hm
    obtain ⟨o, ⟨a, ha, rfl⟩, ho⟩ := hm
    have hka : Clean a.1 := (hch.users a ha).1
    split at ho
    · rename_i p' n' heq
      split at ho
      · cases ho
      · cases ho
        repeat' split at heq
        all_goals first
          | (cases heq; done)
          | (cases heq; exact ⟨prefixStr_clean _ _, hka⟩)
          | (cases heq; exact ⟨clean_nil, clean_nil⟩)
    · cases ho

macro_rules | `(tactic| cc_step) => `(tactic| with_reducible refine cc_namesLines ‹CleanCfg _› ?_ ?_ ?_ ?_)

theorem cc_sendNamesFromChannel {cfg : Cfg} {c : Nat} {chname : Str} {ch : Channel} {theEnd : Bool}
    {x : Ctx} (hcfg : CleanCfg cfg) (hn : Clean chname) (hch : CleanChan ch) (hx : CleanCtx x) :
    CleanCtx (sendNamesFromChannel cfg c chname ch theEnd x) := by
  have hcn := cc_conn hx c
  unfold sendNamesFromChannel
  dsimp only
  cc
macro_rules | `(tactic| cc_step) => `(tactic| with_reducible refine cc_sendNamesFromChannel ‹CleanCfg _› ?_ ?_ ?_)

theorem cc_processNames {cfg : Cfg} {c : Nat} {channels : List Str} {x : Ctx} (hcfg : CleanCfg cfg)
    (hchs : CleanL channels) (hx : CleanCtx x) : CleanCtx (processNames cfg c channels x) := by
  have hcn := cc_conn hx c
  unfold processNames
  dsimp only
  cc

/-! ### JOIN -/

theorem joinCheckExisting_clean {ch : Channel} {chname : Str} {key : Option (Option Str)}
    {source nick client : Str} {invitedTo : KSet} (hn : Clean chname) (hc : Clean client) :
    CleanL (joinCheckExisting ch chname key source nick client invitedTo).2 := by
  unfold joinCheckExisting
  dsimp only
  repeat' split
  all_goals simp only [cleanL_append, cleanL_cons, cleanL_nil, ErrBadChannelKey475_clean,
    ErrBannedFromChan474_clean, ErrInviteOnlyChan473_clean, ErrChannelIsFull471_clean, hn, hc,
    and_self]

theorem joinDecide_clean {cfg : Cfg} {w : World} {cn : Conn} {nick : Str} {invitedTo : KSet}
    (hcn : CleanConn cn) : ∀ {chs : List Str} {keys : List (Option Str)} {cnt : Nat}, CleanL chs →
      CleanL (joinDecide cfg w cn nick invitedTo chs keys cnt).2.1
  | [], _, _, _ => by simp [joinDecide]
  | chn :: rest, keys, cnt, h => by
    have h' := cleanL_cons.1 h
    have hcl := clientName_clean hcn
    unfold joinDecide
    dsimp only
    have ih := fun keys cnt => @joinDecide_clean cfg w cn nick invitedTo hcn rest keys cnt h'.2
    refine cleanL_append.2 ⟨?_, ih _ _⟩
    have hje : ∀ ch key, CleanL (joinCheckExisting ch chn key cn.source nick cn.clientName invitedTo).2 :=
      fun _ _ => joinCheckExisting_clean h'.1 hcl
    repeat' split
    all_goals simp only [cleanL_append, cleanL_cons, cleanL_nil, ErrTooManyChannels405_clean, hje, hcl,
      h'.1, and_self]


theorem joinApply_clean {nick : Str} (hn : Clean nick) : ∀ {ds : List (Bool × Bool)} {chs : List Str}
    {w : World}, CleanL chs → CleanWorld w → CleanWorld (joinApply nick ds chs w)
  | [], _, _, _, h => by unfold joinApply; exact h
  | _ :: _, [], _, _, h => by unfold joinApply; exact h
  | (join, create) :: ds, chn :: chs, w, hc, h => by
    have hc' := cleanL_cons.1 hc
    have hchn := hc'.1
    unfold joinApply
    dsimp only
    refine joinApply_clean hn hc'.2 ?_
    have hnew := newOnUserJoin_clean hn
    cc

theorem cc_joinAnnounce {cfg : Cfg} {c : Nat} {nick : Str} (hcfg : CleanCfg cfg) :
    ∀ {ds : List (Bool × Bool)} {chs : List Str} {x : Ctx}, CleanL chs → CleanCtx x →
      CleanCtx (joinAnnounce cfg c nick ds chs x)
  | [], _, _, _, h => by unfold joinAnnounce; exact h
  | _ :: _, [], _, _, h => by unfold joinAnnounce; exact h
  | (join, create) :: ds, chn :: chs, x, hc, hx => by
    have hc' := cleanL_cons.1 hc
    have hchn := hc'.1
    have hcn := cc_conn hx c
    unfold joinAnnounce
    dsimp only
    refine cc_joinAnnounce hcfg hc'.2 ?_
    cc

macro_rules | `(tactic| cc_step) => `(tactic| with_reducible refine cc_joinAnnounce ‹CleanCfg _› ?_ ?_)
macro_rules | `(tactic| cc_step) => `(tactic| with_reducible refine joinApply_clean ?_ ?_ ?_)
macro_rules | `(tactic| clist) => `(tactic| first | exact joinDecide_clean (by cconn) (by assumption) | fail)

theorem cc_processJoin {cfg : Cfg} {c : Nat} {channels : List Str} {keys : Option (List Str)} {x : Ctx}
    (hcfg : CleanCfg cfg) (hchs : CleanL channels) (hx : CleanCtx x) :
    CleanCtx (processJoin cfg c channels keys x) := by
  have hcn := cc_conn hx c
  unfold processJoin
  dsimp only
  cc

/-! ### PART / TOPIC / LIST / INVITE / KICK -/

macro_rules | `(tactic| ca) => `(tactic| first | exact cleanO_some.1 (by assumption) | fail)
macro_rules | `(tactic| cc_step) => `(tactic|
  (show ∀ t : Topic, _ = some t → CleanTopic t; intro _ h; cases h))

@[simp] theorem reply_w {x : Ctx} {cfg : Cfg} {t : Str} : (x.reply cfg t).w = x.w := rfl
@[simp] theorem replySrc_w {x : Ctx} {src t : Str} : (x.replySrc src t).w = x.w := rfl

theorem cc_processPart {cfg : Cfg} {c : Nat} {channels : List Str} {reason : Option Str} {x : Ctx}
    (hcfg : CleanCfg cfg) (hchs : CleanL channels) (hr : CleanO reason) (hx : CleanCtx x) :
    CleanCtx (processPart cfg c channels reason x) := by
  have hcn := cc_conn hx c
  unfold processPart
  dsimp only
  cc

theorem cc_processTopic {cfg : Cfg} {c : Nat} {channel : Str} {topic : Option Str} {msg : Message}
    {x : Ctx} (hcfg : CleanCfg cfg) (hch : Clean channel) (ht : CleanO topic) (hm : CleanMsg msg)
    (hx : CleanCtx x) : CleanCtx (processTopic cfg c channel topic msg x) := by
  have hcn := cc_conn hx c
  unfold processTopic
  dsimp only
  cc

theorem cc_listLine {cfg : Cfg} {client chn : Str} {ch : Channel} {x : Ctx} (hcfg : CleanCfg cfg)
    (hc : Clean client) (hn : Clean chn) (hch : CleanChan ch) (hx : CleanCtx x) :
    CleanCtx (listLine cfg client chn ch x) := by
  unfold listLine
  cc
macro_rules | `(tactic| cc_step) => `(tactic| with_reducible refine cc_listLine ‹CleanCfg _› ?_ ?_ ?_ ?_)

theorem cc_processList {cfg : Cfg} {c : Nat} {channels : List Str} {server : Option Str} {x : Ctx}
    (hcfg : CleanCfg cfg) (hchs : CleanL channels) (hx : CleanCtx x) :
    CleanCtx (processList cfg c channels server x) := by
  have hcn := cc_conn hx c
  have _ := hchs   -- not needed: an emitted channel name is a key found by lookup
  unfold processList
  dsimp only [reply_w]
  cc

theorem cc_processInvite {cfg : Cfg} {c : Nat} {nickname channel : Str} {msg : Message} {x : Ctx}
    (hcfg : CleanCfg cfg) (hn : Clean nickname) (hch : Clean channel) (hm : CleanMsg msg)
    (hx : CleanCtx x) : CleanCtx (processInvite cfg c nickname channel msg x) := by
  have hcn := cc_conn hx c
  unfold processInvite
  dsimp only
  cc


theorem kickSelect_clean {client channel : Str} {ch : Channel} {b : Bool} (hc : Clean client)
    (hch : Clean channel) : ∀ {us kicked : List Str}, CleanL us → CleanL kicked →
      CleanL (kickSelect client channel ch b us kicked).1 ∧ CleanL (kickSelect client channel ch b us kicked).2
  | [], kicked, _, hk => by simp [kickSelect, hk]
  | ku :: rest, kicked, hu, hk => by
    have hu' := cleanL_cons.1 hu
    have ih := fun kicked hk => @kickSelect_clean client channel ch b hc hch rest kicked hu'.2 hk
    unfold kickSelect
    split
    · split
      · refine ih _ ?_
        split
        · exact hk
        · exact cleanL_append.2 ⟨hk, cleanL_cons.2 ⟨hu'.1, cleanL_nil⟩⟩
      · exact ⟨(ih _ hk).1, cleanL_cons.2 ⟨by simp [hc], (ih _ hk).2⟩⟩
    · exact ⟨(ih _ hk).1, cleanL_cons.2 ⟨by simp [hc, hch, hu'.1], (ih _ hk).2⟩⟩

theorem cw_foldl {α : Type} {f : World → α → World} {l : List α}
    (hf : ∀ w a, a ∈ l → CleanWorld w → CleanWorld (f w a)) {w : World} (hw : CleanWorld w) :
    CleanWorld (l.foldl f w) := by
  induction l generalizing w with
  | nil => exact hw
  | cons a l ih =>
    simp only [List.foldl_cons]
    exact ih (fun w b hb => hf w b (List.mem_cons_of_mem _ hb)) (hf w a (List.mem_cons_self ..) hw)
macro_rules | `(tactic| cc_step) => `(tactic| with_reducible refine cw_foldl (fun _ _ _ _ => ?_) ?_)

macro_rules | `(tactic| clist) => `(tactic| first |
  exact (kickSelect_clean (by ca) (by ca) (by assumption) cleanL_nil).1 | fail)
macro_rules | `(tactic| clist) => `(tactic| first |
  exact (kickSelect_clean (by ca) (by ca) (by assumption) cleanL_nil).2 | fail)

theorem cc_processKick {cfg : Cfg} {c : Nat} {channel : Str} {kickUsers : List Str}
    {comment : Option Str} {x : Ctx} (hcfg : CleanCfg cfg) (hch : Clean channel)
    (hus : CleanL kickUsers) (hcm : CleanO comment) (hx : CleanCtx x) :
    CleanCtx (processKick cfg c channel kickUsers comment x) := by
  have hcn := cc_conn hx c
  have hcm' : Clean (comment.getD (str "Kicked")) := hcm.getD (by decide)
  unfold processKick
  dsimp only
  cc

/-! ## 7. HRest -/

theorem mem_dedup : ∀ {l : List Str} {s : Str}, s ∈ dedup l → s ∈ l
  | [], _, h => by simp [dedup] at h
  | x :: xs, s, h => by
    unfold dedup at h
    rcases List.mem_cons.1 h with rfl | h
    · exact List.mem_cons_self ..
    · exact List.mem_cons_of_mem _ (mem_dedup (List.mem_filter.1 h).1)

theorem dedup_clean {l : List Str} (h : CleanL l) : CleanL (dedup l) :=
  h.subset (fun _ hs => mem_dedup hs)

theorem cc_processAway {cfg : Cfg} {c : Nat} {text : Option Str} {x : Ctx} (hcfg : CleanCfg cfg)
    (ht : CleanO text) (hx : CleanCtx x) : CleanCtx (processAway cfg c text x) := by
  have hcn := cc_conn hx c
  unfold processAway
  dsimp only
  cc


theorem cc_processIson {cfg : Cfg} {c : Nat} {nicknames : List Str} {x : Ctx} (hcfg : CleanCfg cfg)
    (hns : CleanL nicknames) (hx : CleanCtx x) : CleanCtx (processIson cfg c nicknames x) := by
  have hcn := cc_conn hx c
  unfold processIson
  dsimp only
  cc

theorem cc_processWallops {cfg : Cfg} {c : Nat} {msg : Message} {x : Ctx} (hcfg : CleanCfg cfg)
    (hm : CleanMsg msg) (hx : CleanCtx x) : CleanCtx (processWallops cfg c msg x) := by
  have hcn := cc_conn hx c
  unfold processWallops
  dsimp only
  cc

theorem cc_processUserhost {cfg : Cfg} {c : Nat} {nicknames : List Str} {x : Ctx} (hcfg : CleanCfg cfg)
    (hns : CleanL nicknames) (hx : CleanCtx x) : CleanCtx (processUserhost cfg c nicknames x) := by
  have hcn := cc_conn hx c
  unfold processUserhost
  dsimp only
  cc
  rename_i y nicks hnk hy
  intro s hs
  obtain ⟨n, hn, h⟩ := List.mem_filterMap.1 hs
  have hnc : Clean n := hns _ (mem_chunks hnk hn)
  split at h
  · cases h
    clean_side
    split <;> decide
    split <;> decide
  · cases h

theorem cc_processWhowas {cfg : Cfg} {c : Nat} {nickname : Str} {count : Option Nat}
    {server : Option Str} {x : Ctx} (hcfg : CleanCfg cfg)
    (hn : Clean nickname) (hx : CleanCtx x) : CleanCtx (processWhowas cfg c nickname count server x) := by
  have hcn := cc_conn hx c
  unfold processWhowas
  dsimp only
  cc
  all_goals (
    have hh := cw_hist hx.w ‹Map.lookup nickname x.w.histories = some _›
    have := hh _ (List.mem_reverse.1 (List.mem_of_mem_take ‹_ ∈ List.take _ _›))
    ca)


/-! ### KILL / DIE / SQUIT -/

theorem fireKill_clean {killer comment nick : Str} {w : World} (h : CleanWorld w) (hk : Clean killer)
    (hc : Clean comment) : CleanWorld (fireKill killer comment nick w) := by
  unfold fireKill
  split
  · exact h
  · rename_i u hl
    have hu := cw_user h hl
    split
    · exact h
    · have hw' : CleanWorld { w with users := Map.insert nick { u with killed := true } w.users } :=
        cw_users h (h.users.insert (h.users.key_of_lookup hl)
          ⟨hu.hostname, hu.name, hu.realname, hu.source, hu.away, hu.channels, hu.invitedTo, hu.history⟩)
      dsimp only
      split
      · rename_i cn hcn
        have hcn' := cw_conn? hw' hcn
        refine cw_setConn hw' ⟨hcn'.hostname, hcn'.nick, hcn'.name, hcn'.realname, hcn'.password,
          hcn'.source, ?_⟩
        intro p e
        cases e
        exact ⟨hk, hc⟩
      · exact hw'
macro_rules | `(tactic| cc_step) => `(tactic| with_reducible refine fireKill_clean ?_ ?_ ?_)

theorem fireKill_foldl_clean {killer comment : Str} (hk : Clean killer) (hc : Clean comment) :
    ∀ {l : List Str} {w : World}, CleanWorld w →
      CleanWorld (l.foldl (fun w n => fireKill killer comment n w) w)
  | [], _, h => h
  | n :: l, w, h => by
    simp only [List.foldl_cons]
    exact fireKill_foldl_clean hk hc (fireKill_clean h hk hc)

theorem cc_processKill {cfg : Cfg} {c : Nat} {nickname comment : Str} {x : Ctx} (hcfg : CleanCfg cfg)
    (hn : Clean nickname) (hcm : Clean comment) (hx : CleanCtx x) :
    CleanCtx (processKill cfg c nickname comment x) := by
  have hcn := cc_conn hx c
  unfold processKill
  dsimp only
  cc

theorem cc_processDie {cfg : Cfg} {c : Nat} {message : Option Str} {x : Ctx} (hcfg : CleanCfg cfg)
    (hm : CleanO message) (hx : CleanCtx x) : CleanCtx (processDie cfg c message x) := by
  have hcn := cc_conn hx c
  unfold processDie
  dsimp only
  split
  · cc
  · rename_i nick hnick
    have hnk : Clean nick := hcn.nick _ hnick
    have hmsg : Clean (message.getD (str "Quitting from DIE")) := hm.getD (by decide)
    split
    · cc
    · split
      · refine cc_modifyW hx ?_
        have := fireKill_foldl_clean (l := Map.keys x.w.users) hnk hmsg hx.w
        exact this.of_eq rfl rfl rfl rfl rfl
      · cc
macro_rules | `(tactic| cc_step) => `(tactic| with_reducible refine cc_processDie ‹CleanCfg _› ?_ ?_)

theorem cc_processSquit {cfg : Cfg} {c : Nat} {server comment : Str} {x : Ctx} (hcfg : CleanCfg cfg)
    (hs : Clean server) (hcm : Clean comment) (hx : CleanCtx x) :
    CleanCtx (processSquit cfg c server comment x) := by
  have hcn := cc_conn hx c
  have _ := hs
  unfold processSquit
  cc


/-! ### WHO -/

theorem cc_sendWhoInfo {cfg : Cfg} {cn : Conn} {channel : Option (Str × ChanUserModes)} {userNick : Str}
    {user cmdUser : User} {x : Ctx} (hcfg : CleanCfg cfg) (hcn : CleanConn cn)
    (hch : ∀ p, channel = some p → Clean p.1) (hn : Clean userNick) (hu : CleanUser user)
    (hx : CleanCtx x) : CleanCtx (sendWhoInfo cfg cn channel userNick user cmdUser x) := by
  have hch' : ∀ s m, channel = some (s, m) → Clean s := fun s m e => hch _ e
  clear hch
  unfold sendWhoInfo
  dsimp only
  cc
  all_goals exact hch' _ _ rfl
macro_rules | `(tactic| cc_step) => `(tactic| with_reducible refine cc_sendWhoInfo ‹CleanCfg _› ?_ ?_ ?_ ?_ ?_)

theorem cc_processWho {cfg : Cfg} {c : Nat} {mask : Str} {x : Ctx} (hcfg : CleanCfg cfg)
    (hm : Clean mask) (hx : CleanCtx x) : CleanCtx (processWho cfg c mask x) := by
  have hcn := cc_conn hx c
  unfold processWho
  dsimp only
  cc
  intro p e
  cases e
  exact hm


/-! ### WHOIS -/

theorem cc_whoisOne {cfg : Cfg} {cn : Conn} {user : User} {nick : Str} {x : Ctx} (hcfg : CleanCfg cfg)
    (hcn : CleanConn cn) (hn : Clean nick) (hx : CleanCtx x) : CleanCtx (whoisOne cfg cn user nick x) := by
  unfold whoisOne
  dsimp only
  cc
  all_goals (
    intro p hp
    have hp' := mem_chunks ‹_ ∈ chunks _ _› hp
    obtain ⟨o, ho, hg⟩ := List.mem_filterMap.1 hp'
    obtain ⟨chn, hchn, rfl⟩ := List.mem_map.1 ho
    have hcl : Clean chn := (cw_user hx.w ‹Map.lookup nick x.w.users = some _›).channels _ hchn
    clear hp' ho hp
    split at hg
    · rename_i pfx chn' hm
      cases hg
      refine ⟨cleanO_some.2 ?_, ?_⟩
      all_goals (
        repeat' split at hm
        all_goals first
          | (cases hm; done)
          | (cases hm; first | exact prefixStr_clean _ _ | exact hcl))
    · cases hg)
macro_rules | `(tactic| cc_step) => `(tactic| with_reducible refine cc_whoisOne ‹CleanCfg _› ?_ ?_ ?_)


theorem cc_processWhois {cfg : Cfg} {c : Nat} {target : Option Str} {nickmasks : List Str} {x : Ctx}
    (hcfg : CleanCfg cfg) (ht : CleanO target) (hns : CleanL nickmasks) (hx : CleanCtx x) :
    CleanCtx (processWhois cfg c target nickmasks x) := by
  have hcn := cc_conn hx c
  have _ := ht
  unfold processWhois
  dsimp only
  cc
  rename_i hmem _
  rcases List.mem_append.1 (mem_dedup hmem) with h | h
  · exact hns _ (List.mem_filter.1 h).1
  · split at h
    · cases h
    · exact hx.w.users.keys _ (List.mem_filter.1 h).1


/-! ### PRIVMSG / NOTICE -/

theorem privmsgTargetLoop_clean : ∀ {s : Str} {out : TargetType} {a : Nat} {l : Bool}, Clean s →
    Clean (privmsgTargetLoop out a l s).2
  | [], _, _, _, _ => by simp [privmsgTargetLoop]
  | c :: cs, out, a, l, h => by
    have hc := clean_cons.1 h
    unfold privmsgTargetLoop
    repeat' split
    all_goals first
      | exact privmsgTargetLoop_clean hc.2
      | exact clean_nil
      | exact h
      | exact clean_cons.2 ⟨by decide, h⟩

theorem getPrivmsgTargetType_clean {t : Str} (h : Clean t) : Clean (getPrivmsgTargetType t).2 :=
  privmsgTargetLoop_clean h

theorem specialRecipients_clean {tt : TargetType} {ch : Channel} {nick : Str} (h : CleanChan ch) :
    CleanL (specialRecipients tt ch nick) := by
  unfold specialRecipients
  dsimp only
  refine dedup_clean (CleanL.filter ?_ _)
  have hm := h.modes
  simp only [cleanL_append]
  refine ⟨⟨⟨⟨?_, ?_⟩, ?_⟩, ?_⟩, ?_⟩ <;> split <;> first | exact cleanL_nil | clist

theorem cc_privmsgTarget {cfg : Cfg} {c : Nat} {nick : Str} {notice : Bool} {text target : Str} {x : Ctx}
    (hcfg : CleanCfg cfg) (ht : Clean text) (htg : Clean target) (hx : CleanCtx x) :
    CleanCtx (privmsgTarget cfg c nick notice text target x).1 := by
  have hcn := cc_conn hx c
  have hch := getPrivmsgTargetType_clean htg
  unfold privmsgTarget
  dsimp only
  cc


theorem cc_foldl_pair {α β : Type} {f : Ctx × β → α → Ctx × β} {l : List α}
    (hf : ∀ p a, a ∈ l → CleanCtx p.1 → CleanCtx (f p a).1) {p : Ctx × β} (hp : CleanCtx p.1) :
    CleanCtx (l.foldl f p).1 := by
  induction l generalizing p with
  | nil => exact hp
  | cons a l ih =>
    simp only [List.foldl_cons]
    exact ih (fun p b hb => hf p b (List.mem_cons_of_mem _ hb)) (hf p a (List.mem_cons_self ..) hp)

theorem cc_processPrivmsgNotice {cfg : Cfg} {c : Nat} {targets : List Str} {text : Str} {notice : Bool}
    {x : Ctx} (hcfg : CleanCfg cfg) (hts : CleanL targets) (ht : Clean text) (hx : CleanCtx x) :
    CleanCtx (processPrivmsgNotice cfg c targets text notice x) := by
  unfold processPrivmsgNotice
  dsimp only
  split
  · cc
  · rename_i nick hnick
    have hf : CleanCtx ((dedup targets).foldl (fun (x, d) t =>
        let (x', d') := privmsgTarget cfg c nick notice text t x
        (x', d || d')) (x, false)).1 := by
      refine cc_foldl_pair (fun p a ha hp => ?_) hx
      obtain ⟨y, d⟩ := p
      exact cc_privmsgTarget hcfg ht (dedup_clean hts _ ha) hp
    revert hf
    generalize (dedup targets).foldl _ (x, false) = r
    obtain ⟨y, d⟩ := r
    intro hf
    dsimp only
    cc

/-! ## 8. HQuery -/

theorem cc_processVersion {cfg : Cfg} {c : Nat} {target : Option Str} {x : Ctx} (hcfg : CleanCfg cfg)
    (hx : CleanCtx x) : CleanCtx (processVersion cfg c target x) := by
  have hcn := cc_conn hx c
  unfold processVersion
  dsimp only
  cc

theorem cc_processAdmin {cfg : Cfg} {c : Nat} {target : Option Str} {x : Ctx} (hcfg : CleanCfg cfg)
    (hx : CleanCtx x) : CleanCtx (processAdmin cfg c target x) := by
  have hcn := cc_conn hx c
  unfold processAdmin
  dsimp only
  cc

theorem cc_processTime {cfg : Cfg} {c : Nat} {server : Option Str} {x : Ctx} (hcfg : CleanCfg cfg)
    (hx : CleanCtx x) : CleanCtx (processTime cfg c server x) := by
  have hcn := cc_conn hx c
  unfold processTime
  dsimp only
  cc

theorem cc_processStats {cfg : Cfg} {c : Nat} {stat : Char} {server : Option Str} {x : Ctx}
    (hcfg : CleanCfg cfg) (hq : stat ≠ nl) (hx : CleanCtx x) :
    CleanCtx (processStats cfg c stat server x) := by
  have hcn := cc_conn hx c
  unfold processStats
  dsimp only
  cc

theorem cc_processLinks {cfg : Cfg} {c : Nat} {remote mask : Option Str} {x : Ctx} (hcfg : CleanCfg cfg)
    (hx : CleanCtx x) : CleanCtx (processLinks cfg c remote mask x) := by
  have hcn := cc_conn hx c
  unfold processLinks
  dsimp only
  cc

theorem cc_processInfo {cfg : Cfg} {c : Nat} {x : Ctx} (hcfg : CleanCfg cfg)
    (hx : CleanCtx x) : CleanCtx (processInfo cfg c x) := by
  have hcn := cc_conn hx c
  unfold processInfo
  dsimp only
  cc


/-! ### HELP -/

theorem cc_helpLines {cfg : Cfg} {client subject : Str} (hcfg : CleanCfg cfg) (hc : Clean client)
    (hs : Clean subject) : ∀ {lines : List Str} {i total : Nat} {x : Ctx}, CleanL lines → CleanCtx x →
      CleanCtx (helpLines cfg client subject i lines total x)
  | [], _, _, _, _, hx => by unfold helpLines; exact hx
  | line :: rest, i, total, x, hl, hx => by
    have hl' := cleanL_cons.1 hl
    have h1 := hl'.1
    unfold helpLines
    dsimp only
    refine cc_helpLines hcfg hc hs hl'.2 ?_
    cc

theorem cc_processHelp {cfg : Cfg} {c : Nat} {subjectOpt : Option Str} {x : Ctx} (hcfg : CleanCfg cfg)
    (hs : CleanO subjectOpt) (hx : CleanCtx x) : CleanCtx (processHelp cfg c subjectOpt x) := by
  have hcn := cc_conn hx c
  have hsub : Clean (subjectOpt.getD (str "MAIN")) := hs.getD (by decide)
  unfold processHelp
  dsimp only
  split
  · rename_i t content heq
    exact cc_helpLines hcfg (cc_clientName hx c) hsub (splitTerminator_clean content) hx
  · cc

/-! ### channel MODE -/

structure CleanAcc (a : ModeAcc) : Prop where
  x : CleanCtx a.x
  ch : CleanChan a.ch
  args : CleanL a.args
  setStr : Clean a.setStr
  unsetStr : Clean a.unsetStr
  paramsStr : Clean a.paramsStr

theorem CleanL.head_of_eq {l r : List Str} {a : Str} (e : l = a :: r) (h : CleanL l) : Clean a :=
  (cleanL_cons.1 (e ▸ h)).1
theorem CleanL.tail_of_eq {l r : List Str} {a : Str} (e : l = a :: r) (h : CleanL l) : CleanL r :=
  (cleanL_cons.1 (e ▸ h)).2


theorem lookup_getD_clean {m : Map Str} {k : Str} (h : CleanMap Clean m) :
    Clean ((Map.lookup k m).getD []) := by
  cases hl : Map.lookup k m with
  | none => exact clean_nil
  | some v => exact h.lookup hl

theorem setRank_clean {ch ch' : Channel} {letter : Char} {nick : Str} {on : Bool} (hch : CleanChan ch)
    (hn : Clean nick) (h : ch.setRank letter nick on = some ch') : CleanChan ch' := by
  unfold Channel.setRank at h
  split at h
  · cases h
  · extract_lets +onlyGivenNames upd at h
    have hupd : ∀ {s : KSet}, CleanL s → CleanL (upd s) := by
      intro s hs
      show CleanL (if _ then _ else _)
      split
      · exact hs.kinsert hn
      · exact hs.kerase _
    clear_value upd
    have hm := hch.modes
    dsimp only at h
    cases h
    refine ⟨hch.topic, ?_, hch.defaultModes, hch.banInfo, hch.users.insert hn trivial⟩
    dsimp only
    repeat' split
    all_goals first
      | exact hm
      | exact ⟨hm.ban, hm.exception, hm.inviteException, hm.key, hupd hm.operators, hm.halfOperators, hm.voices, hm.founders, hm.protecteds⟩
      | exact ⟨hm.ban, hm.exception, hm.inviteException, hm.key, hm.operators, hupd hm.halfOperators, hm.voices, hm.founders, hm.protecteds⟩
      | exact ⟨hm.ban, hm.exception, hm.inviteException, hm.key, hm.operators, hm.halfOperators, hupd hm.voices, hm.founders, hm.protecteds⟩
      | exact ⟨hm.ban, hm.exception, hm.inviteException, hm.key, hm.operators, hm.halfOperators, hm.voices, hupd hm.founders, hm.protecteds⟩
      | exact ⟨hm.ban, hm.exception, hm.inviteException, hm.key, hm.operators, hm.halfOperators, hm.voices, hm.founders, hupd hm.protecteds⟩

theorem cchan_upd {ch : Channel} {m : ChannelModes} {bi : Map Str} (hch : CleanChan ch)
    (hm : CleanModes m) (hb : CleanMap Clean bi) :
    CleanChan { topic := ch.topic, modes := m, defaultModes := ch.defaultModes, banInfo := bi,
                users := ch.users, preconfigured := ch.preconfigured } :=
  ⟨hch.topic, hm, hch.defaultModes, hb, hch.users⟩

theorem cmodes_upd {m : ChannelModes} {b e ie : KSet} {k : Option Str} {cl : Option Nat}
    {f1 f2 f3 f4 f5 : Bool} (hm : CleanModes m) (hb : CleanL b) (he : CleanL e) (hie : CleanL ie)
    (hk : CleanO k) :
    CleanModes { ban := b, exception := e, clientLimit := cl, inviteException := ie, key := k,
                 operators := m.operators, halfOperators := m.halfOperators, voices := m.voices,
                 founders := m.founders, protecteds := m.protecteds, inviteOnly := f1,
                 moderated := f2, secret := f3, protectedTopic := f4, noExternalMessages := f5 } :=
  ⟨hb, he, hie, hk, hm.operators, hm.halfOperators, hm.voices, hm.founders, hm.protecteds⟩

theorem params_clean {p l arg : Str} {b : Bool} (hp : Clean p) (hl : Clean l) (harg : Clean arg) :
    Clean ((p ++ if b = true then str " +" else str " -") ++ l ++ arg) := by
  cases b <;> simp (config := { decide := true }) [hp, hl, harg]

theorem kset_ite_clean {s : KSet} {k : Str} {b : Bool} (hs : CleanL s) (hk : Clean k) :
    CleanL (if b = true then KSet.insert k s else KSet.erase k s) := by
  split
  · exact hs.kinsert hk
  · exact hs.kerase _

theorem CleanAcc.ite {c : Prop} [Decidable c] {A B : ModeAcc} (hA : c → CleanAcc A)
    (hB : ¬c → CleanAcc B) : CleanAcc (if c then A else B) := by
  split
  · exact hA ‹_›
  · exact hB ‹_›


theorem modeChar_clean {cfg : Cfg} {cn : Conn} {target : Str} {chum : ChanUserModes} {a : ModeAcc}
    {mchar : Char} (hcfg : CleanCfg cfg) (hcn : CleanConn cn) (ht : Clean target) (hm : mchar ≠ nl)
    (ha : CleanAcc a) : CleanAcc (modeChar cfg cn target chum a mchar) := by
  unfold modeChar
  extract_lets +onlyGivenNames client nick err482 preChecked a1
  have hcl : Clean client := clientName_clean hcn
  have hn : Clean nick := hcn.nick.getD clean_nil
  have h482 : Clean (ErrChanOpPrivsNeeded482 client target) := by clean_simp; exact ⟨hcl, ht⟩
  have ha1 : CleanAcc a1 := by
    show CleanAcc (if _ then _ else _)
    split
    · exact ⟨cc_reply hcfg ha.x h482, ha.ch, ha.args, ha.setStr, ha.unsetStr, ha.paramsStr⟩
    · exact ha
  clear_value a1 client nick
  clear preChecked
  dsimp only [err482]
  clear err482 ha a
  obtain ⟨hax, hach, haargs, hass, haus, haps⟩ := ha1
  have hmo := hach.modes
  -- '+'
  with_reducible refine CleanAcc.ite (fun _ => ?_) (fun _ => ?_)
  · exact ⟨hax, hach, haargs, hass, haus, haps⟩
  -- '-'
  with_reducible refine CleanAcc.ite (fun _ => ?_) (fun _ => ?_)
  · exact ⟨hax, hach, haargs, hass, haus, haps⟩
  -- 'b'
  with_reducible refine CleanAcc.ite (fun _ => ?_) (fun _ => ?_)
  · split
    · rename_i bmask rest heq
      have hr := CleanL.tail_of_eq heq haargs
      have hnorm := normalizeSourcemask_clean (CleanL.head_of_eq heq haargs)
      with_reducible refine CleanAcc.ite (fun _ => ?_) (fun _ => ?_)
      · with_reducible refine CleanAcc.ite (fun _ => ?_) (fun _ => ?_)
        · exact ⟨hax, cchan_upd hach (cmodes_upd hmo (hmo.ban.kinsert hnorm) hmo.exception
            hmo.inviteException hmo.key) (hach.banInfo.insert hnorm hn), hr, hass, haus,
            params_clean haps (by decide) hnorm⟩
        · exact ⟨hax, cchan_upd hach (cmodes_upd hmo (hmo.ban.kerase _) hmo.exception
            hmo.inviteException hmo.key) (hach.banInfo.erase _), hr, hass, haus,
            params_clean haps (by decide) hnorm⟩
      · exact ⟨cc_reply hcfg hax h482, hach, hr, hass, haus, haps⟩
    · refine ⟨cc_reply hcfg (cc_foldl (fun x b hb hx => cc_reply hcfg hx ?_) hax) ?_, hach, haargs, hass, haus, haps⟩
      · clean_simp; exact ⟨hcl, ht, hmo.ban _ hb, lookup_getD_clean hach.banInfo⟩
      · clean_simp; exact ⟨hcl, ht⟩
  -- 'e'
  with_reducible refine CleanAcc.ite (fun _ => ?_) (fun _ => ?_)
  · split
    · rename_i emask rest heq
      have hr := CleanL.tail_of_eq heq haargs
      have hnorm := normalizeSourcemask_clean (CleanL.head_of_eq heq haargs)
      with_reducible refine CleanAcc.ite (fun _ => ?_) (fun _ => ?_)
      · exact ⟨hax, cchan_upd hach (cmodes_upd hmo hmo.ban (kset_ite_clean hmo.exception hnorm)
            hmo.inviteException hmo.key) hach.banInfo, hr, hass, haus,
            params_clean haps (by decide) hnorm⟩
      · exact ⟨cc_reply hcfg hax h482, hach, hr, hass, haus, haps⟩
    · refine ⟨cc_reply hcfg (cc_foldl (fun x b hb hx => cc_reply hcfg hx ?_) hax) ?_, hach, haargs, hass, haus, haps⟩
      · clean_simp; exact ⟨hcl, ht, hmo.exception _ hb⟩
      · clean_simp; exact ⟨hcl, ht⟩
  -- 'I'
  with_reducible refine CleanAcc.ite (fun _ => ?_) (fun _ => ?_)
  · split
    · rename_i imask rest heq
      have hr := CleanL.tail_of_eq heq haargs
      have hnorm := normalizeSourcemask_clean (CleanL.head_of_eq heq haargs)
      with_reducible refine CleanAcc.ite (fun _ => ?_) (fun _ => ?_)
      · exact ⟨hax, cchan_upd hach (cmodes_upd hmo hmo.ban hmo.exception
            (kset_ite_clean hmo.inviteException hnorm) hmo.key) hach.banInfo, hr, hass, haus,
            params_clean haps (by decide) hnorm⟩
      · exact ⟨cc_reply hcfg hax h482, hach, hr, hass, haus, haps⟩
    · refine ⟨cc_reply hcfg (cc_foldl (fun x b hb hx => cc_reply hcfg hx ?_) hax) ?_, hach, haargs, hass, haus, haps⟩
      · clean_simp; exact ⟨hcl, ht, hmo.inviteException _ hb⟩
      · clean_simp; exact ⟨hcl, ht⟩
  -- rank letters
  with_reducible refine CleanAcc.ite (fun _ => ?_) (fun _ => ?_)
  · split
    · exact ⟨cc_panic hax _, hach, haargs, hass, haus, haps⟩
    · rename_i arg rest heq
      have hr := CleanL.tail_of_eq heq haargs
      have harg := CleanL.head_of_eq heq haargs
      with_reducible refine CleanAcc.ite (fun _ => ?_) (fun _ => ?_)
      · with_reducible refine CleanAcc.ite (fun _ => ?_) (fun _ => ?_)
        · split
          · rename_i ch' hsr
            exact ⟨hax, setRank_clean hach harg hsr, hr, hass, haus,
              params_clean haps (clean_cons.2 ⟨hm, by decide⟩) harg⟩
          · exact ⟨cc_panic hax _, hach, hr, hass, haus, haps⟩
        · exact ⟨hax, hach, hr, hass, haus, haps⟩
      · refine ⟨cc_reply hcfg hax ?_, hach, hr, hass, haus, haps⟩
        clean_simp; exact ⟨hcl, harg, ht⟩
  -- 'l'
  with_reducible refine CleanAcc.ite (fun _ => ?_) (fun _ => ?_)
  · with_reducible refine CleanAcc.ite (fun _ => ?_) (fun _ => ?_)
    · with_reducible refine CleanAcc.ite (fun _ => ?_) (fun _ => ?_)
      · split
        · exact ⟨cc_panic hax _, hach, haargs, hass, haus, haps⟩
        · rename_i arg rest heq
          have hr := CleanL.tail_of_eq heq haargs
          have harg := CleanL.head_of_eq heq haargs
          split
          · exact ⟨hax, cchan_upd hach (cmodes_upd hmo hmo.ban hmo.exception hmo.inviteException
              hmo.key) hach.banInfo, hr, hass, haus,
              clean_append.2 ⟨clean_append.2 ⟨haps, by decide⟩, harg⟩⟩
          · exact ⟨cc_panic hax _, hach, hr, hass, haus, haps⟩
      · exact ⟨hax, cchan_upd hach (cmodes_upd hmo hmo.ban hmo.exception hmo.inviteException
          hmo.key) hach.banInfo, haargs, hass, clean_append.2 ⟨haus, by decide⟩, haps⟩
    · exact ⟨hax, hach, haargs, hass, haus, haps⟩
  -- 'k'
  with_reducible refine CleanAcc.ite (fun _ => ?_) (fun _ => ?_)
  · with_reducible refine CleanAcc.ite (fun _ => ?_) (fun _ => ?_)
    · with_reducible refine CleanAcc.ite (fun _ => ?_) (fun _ => ?_)
      · split
        · exact ⟨cc_panic hax _, hach, haargs, hass, haus, haps⟩
        · rename_i arg rest heq
          have hr := CleanL.tail_of_eq heq haargs
          have harg := CleanL.head_of_eq heq haargs
          exact ⟨hax, cchan_upd hach (cmodes_upd hmo hmo.ban hmo.exception hmo.inviteException
              (cleanO_some.2 harg)) hach.banInfo, hr, hass, haus,
              clean_append.2 ⟨clean_append.2 ⟨haps, by decide⟩, harg⟩⟩
      · exact ⟨hax, cchan_upd hach (cmodes_upd hmo hmo.ban hmo.exception hmo.inviteException
          cleanO_none) hach.banInfo, haargs, hass, clean_append.2 ⟨haus, by decide⟩, haps⟩
    · exact ⟨hax, hach, haargs, hass, haus, haps⟩
  -- flags
  with_reducible refine CleanAcc.ite (fun _ => ?_) (fun _ => ?_)
  · with_reducible refine CleanAcc.ite (fun _ => ?_) (fun _ => ?_)
    · have hm' : CleanModes (if mchar = 'i' then { a1.ch.modes with inviteOnly := a1.modeSet }
          else if mchar = 'm' then { a1.ch.modes with moderated := a1.modeSet }
          else if mchar = 't' then { a1.ch.modes with protectedTopic := a1.modeSet }
          else if mchar = 'n' then { a1.ch.modes with noExternalMessages := a1.modeSet }
          else { a1.ch.modes with secret := a1.modeSet }) := by
        repeat' split
        all_goals exact cmodes_upd hmo hmo.ban hmo.exception hmo.inviteException hmo.key
      have h1 : Clean [mchar] := clean_cons.2 ⟨hm, clean_nil⟩
      with_reducible refine CleanAcc.ite (fun _ => ?_) (fun _ => ?_)
      · exact ⟨hax, cchan_upd hach hm' hach.banInfo, haargs, clean_append.2 ⟨hass, h1⟩, haus, haps⟩
      · exact ⟨hax, cchan_upd hach hm' hach.banInfo, haargs, hass, clean_append.2 ⟨haus, h1⟩, haps⟩
    · exact ⟨hax, hach, haargs, hass, haus, haps⟩
  exact ⟨hax, hach, haargs, hass, haus, haps⟩

theorem foldl_modeChar_clean {cfg : Cfg} {cn : Conn} {target : Str} {chum : ChanUserModes}
    (hcfg : CleanCfg cfg) (hcn : CleanConn cn) (ht : Clean target) :
    ∀ {cs : Str} {a : ModeAcc}, Clean cs → CleanAcc a →
      CleanAcc (cs.foldl (modeChar cfg cn target chum) a)
  | [], _, _, ha => ha
  | c :: cs, a, hcs, ha => by
    have h := clean_cons.1 hcs
    simp only [List.foldl_cons]
    exact foldl_modeChar_clean hcfg hcn ht h.2 (modeChar_clean hcfg hcn ht h.1 ha)

theorem modeGroup_clean {cfg : Cfg} {cn : Conn} {target : Str} {chum : ChanUserModes} {a : ModeAcc}
    {g : Str × List Str} (hcfg : CleanCfg cfg) (hcn : CleanConn cn) (ht : Clean target)
    (hg1 : Clean g.1) (hg2 : CleanL g.2) (ha : CleanAcc a) :
    CleanAcc (modeGroup cfg cn target chum a g) := by
  unfold modeGroup
  exact foldl_modeChar_clean hcfg hcn ht hg1 ⟨ha.x, ha.ch, hg2, ha.setStr, ha.unsetStr, ha.paramsStr⟩

theorem foldl_modeGroup_clean {cfg : Cfg} {cn : Conn} {target : Str} {chum : ChanUserModes}
    (hcfg : CleanCfg cfg) (hcn : CleanConn cn) (ht : Clean target) :
    ∀ {ms : List (Str × List Str)} {a : ModeAcc}, CleanGroups ms → CleanAcc a →
      CleanAcc (ms.foldl (modeGroup cfg cn target chum) a)
  | [], _, _, ha => ha
  | g :: ms, a, hms, ha => by
    have hg := hms g (List.mem_cons_self ..)
    simp only [List.foldl_cons]
    exact foldl_modeGroup_clean hcfg hcn ht (fun g' hg' => hms g' (List.mem_cons_of_mem _ hg'))
      (modeGroup_clean hcfg hcn ht hg.1 hg.2 ha)

theorem modeAnnouncement_clean {target s u p : Str} (ht : Clean target) (hs : Clean s) (hu : Clean u)
    (hp : Clean p) : CleanO (modeAnnouncement target s u p) := by
  unfold modeAnnouncement
  have hp' := hp.drop 1
  have hp'' : Clean p.tail := by rw [← List.drop_one]; exact hp'
  split
  · exact cleanO_none
  · dsimp only
    rw [cleanO_some]
    repeat' split
    all_goals simp (config := { decide := true }) [ht, hs, hu, hp'']

theorem cc_processModeChannel {cfg : Cfg} {c : Nat} {target : Str} {ch : Channel}
    {modes : List (Str × List Str)} {chum : ChanUserModes} {x : Ctx} (hcfg : CleanCfg cfg)
    (ht : Clean target) (hch : CleanChan ch) (hms : CleanGroups modes) (hx : CleanCtx x) :
    CleanCtx (processModeChannel cfg c target ch modes chum x) := by
  have hcn := cc_conn hx c
  unfold processModeChannel
  dsimp only
  split
  · cc
  · have ha := foldl_modeGroup_clean (chum := chum) hcfg hcn ht hms
      (a := { x := x, ch := ch, args := [] }) ⟨hx, hch, cleanL_nil, clean_nil, clean_nil, clean_nil⟩
    generalize List.foldl (modeGroup cfg (x.conn c) target chum) { x := x, ch := ch, args := [] } modes = a at ha
    obtain ⟨hax, hach, haargs, hass, haus, haps⟩ := ha
    have hann := modeAnnouncement_clean ht hass haus haps
    split
    · rename_i line hl
      have hline : Clean line := hann _ hl
      cc
    · cc

/-! ### user MODE -/

structure CleanUAcc (a : UModeAcc) : Prop where
  x : CleanCtx a.x
  setStr : Clean a.setStr
  unsetStr : Clean a.unsetStr

theorem CleanUAcc.ite {c : Prop} [Decidable c] {A B : UModeAcc} (hA : c → CleanUAcc A)
    (hB : ¬c → CleanUAcc B) : CleanUAcc (if c then A else B) := by
  split
  · exact hA ‹_›
  · exact hB ‹_›

/-- world goals of the user-MODE loop: counter changes, possibly behind an underflow check -/
macro "uworld" : tactic => `(tactic|
  (dsimp only
   refine cc_modifyW (by assumption) ?_
   try dsimp only
   first
    | world_frame
    | (split <;> first | exact cw_panic (by assumption) _ | world_frame)))

theorem umodeChar_clean {cfg : Cfg} {cn : Conn} {nick : Str} {a : UModeAcc} {mchar : Char}
    (hcfg : CleanCfg cfg) (hcn : CleanConn cn) (hn : Clean nick) (ha : CleanUAcc a) :
    CleanUAcc (umodeChar cfg cn nick a mchar) := by
  unfold umodeChar
  have hcl : Clean cn.clientName := clientName_clean hcn
  obtain ⟨hax, hass, haus⟩ := ha
  have haw := hax.w
  have h481 : Clean (ErrNoPrivileges481 cn.clientName) := by clean_simp; exact hcl
  have h484 : Clean (ErrYourConnRestricted484 cn.clientName) := by clean_simp; exact hcl
  dsimp only
  -- '+'
  with_reducible refine CleanUAcc.ite (fun _ => ?_) (fun _ => ?_)
  · exact ⟨hax, hass, haus⟩
  -- '-'
  with_reducible refine CleanUAcc.ite (fun _ => ?_) (fun _ => ?_)
  · exact ⟨hax, hass, haus⟩
  -- 'i'
  with_reducible refine CleanUAcc.ite (fun _ => ?_) (fun _ => ?_)
  · with_reducible refine CleanUAcc.ite (fun _ => ?_) (fun _ => ?_)
    · with_reducible refine CleanUAcc.ite (fun _ => ?_) (fun _ => ?_)
      · refine ⟨?_, clean_append.2 ⟨hass, by decide⟩, haus⟩
        uworld
      · exact ⟨hax, hass, haus⟩
    · with_reducible refine CleanUAcc.ite (fun _ => ?_) (fun _ => ?_)
      · refine ⟨?_, hass, clean_append.2 ⟨haus, by decide⟩⟩
        uworld
      · exact ⟨hax, hass, haus⟩
  -- 'r'
  with_reducible refine CleanUAcc.ite (fun _ => ?_) (fun _ => ?_)
  · with_reducible refine CleanUAcc.ite (fun _ => ?_) (fun _ => ?_)
    · with_reducible refine CleanUAcc.ite (fun _ => ?_) (fun _ => ?_)
      · with_reducible refine CleanUAcc.ite (fun _ => ?_) (fun _ => ?_)
        · exact ⟨hax, clean_append.2 ⟨hass, by decide⟩, haus⟩
        · exact ⟨cc_reply hcfg hax h481, hass, haus⟩
      · exact ⟨hax, hass, haus⟩
    · with_reducible refine CleanUAcc.ite (fun _ => ?_) (fun _ => ?_)
      · exact ⟨cc_reply hcfg hax h484, hass, clean_append.2 ⟨haus, by decide⟩⟩
      · exact ⟨hax, hass, haus⟩
  -- 'w'
  with_reducible refine CleanUAcc.ite (fun _ => ?_) (fun _ => ?_)
  · with_reducible refine CleanUAcc.ite (fun _ => ?_) (fun _ => ?_)
    · with_reducible refine CleanUAcc.ite (fun _ => ?_) (fun _ => ?_)
      · refine ⟨?_, clean_append.2 ⟨hass, by decide⟩, haus⟩
        dsimp only
        exact cc_modifyW hax (cw_wallops haw (haw.wallops.kinsert hn))
      · exact ⟨hax, hass, haus⟩
    · with_reducible refine CleanUAcc.ite (fun _ => ?_) (fun _ => ?_)
      · refine ⟨?_, hass, clean_append.2 ⟨haus, by decide⟩⟩
        dsimp only
        exact cc_modifyW hax (cw_wallops haw (haw.wallops.kerase _))
      · exact ⟨hax, hass, haus⟩
  -- 'o'
  with_reducible refine CleanUAcc.ite (fun _ => ?_) (fun _ => ?_)
  · with_reducible refine CleanUAcc.ite (fun _ => ?_) (fun _ => ?_)
    · with_reducible refine CleanUAcc.ite (fun _ => ?_) (fun _ => ?_)
      · exact ⟨cc_reply hcfg hax h481, hass, haus⟩
      · exact ⟨hax, hass, haus⟩
    · with_reducible refine CleanUAcc.ite (fun _ => ?_) (fun _ => ?_)
      · with_reducible refine CleanUAcc.ite (fun _ => ?_) (fun _ => ?_)
        · refine ⟨?_, hass, clean_append.2 ⟨haus, by decide⟩⟩
          uworld
        · exact ⟨hax, hass, haus⟩
      · exact ⟨hax, hass, haus⟩
  -- 'O'
  with_reducible refine CleanUAcc.ite (fun _ => ?_) (fun _ => ?_)
  · with_reducible refine CleanUAcc.ite (fun _ => ?_) (fun _ => ?_)
    · with_reducible refine CleanUAcc.ite (fun _ => ?_) (fun _ => ?_)
      · exact ⟨cc_reply hcfg hax h481, hass, haus⟩
      · exact ⟨hax, hass, haus⟩
    · with_reducible refine CleanUAcc.ite (fun _ => ?_) (fun _ => ?_)
      · with_reducible refine CleanUAcc.ite (fun _ => ?_) (fun _ => ?_)
        · refine ⟨?_, hass, clean_append.2 ⟨haus, by decide⟩⟩
          uworld
        · exact ⟨hax, hass, clean_append.2 ⟨haus, by decide⟩⟩
      · exact ⟨hax, hass, haus⟩
  exact ⟨hax, hass, haus⟩

theorem foldl_umodeChar_clean {cfg : Cfg} {cn : Conn} {nick : Str} (hcfg : CleanCfg cfg)
    (hcn : CleanConn cn) (hn : Clean nick) :
    ∀ {cs : Str} {a : UModeAcc}, CleanUAcc a → CleanUAcc (cs.foldl (umodeChar cfg cn nick) a)
  | [], _, ha => ha
  | c :: cs, a, ha => by
    simp only [List.foldl_cons]
    exact foldl_umodeChar_clean hcfg hcn hn (umodeChar_clean hcfg hcn hn ha)

theorem foldl_umodeGroup_clean {cfg : Cfg} {cn : Conn} {nick : Str} (hcfg : CleanCfg cfg)
    (hcn : CleanConn cn) (hn : Clean nick) :
    ∀ {ms : List (Str × List Str)} {a : UModeAcc}, CleanUAcc a →
      CleanUAcc (ms.foldl (fun a g =>
        g.1.foldl (umodeChar cfg cn nick) { a with modeSet := false }) a)
  | [], _, ha => ha
  | g :: ms, a, ha => by
    simp only [List.foldl_cons]
    exact foldl_umodeGroup_clean hcfg hcn hn
      (foldl_umodeChar_clean hcfg hcn hn ⟨ha.x, ha.setStr, ha.unsetStr⟩)

theorem cc_processModeUser {cfg : Cfg} {c : Nat} {target : Str} {modes : List (Str × List Str)}
    {x : Ctx} (hcfg : CleanCfg cfg) (ht : Clean target) (hx : CleanCtx x) :
    CleanCtx (processModeUser cfg c target modes x) := by
  have hcn := cc_conn hx c
  unfold processModeUser
  dsimp only
  split
  · cc
  · rename_i user hl
    split
    · cc
    · have ha := foldl_umodeGroup_clean (ms := modes) hcfg hcn ht
        (a := { x := x, modes := user.modes }) ⟨hx, clean_nil, clean_nil⟩
      generalize List.foldl (fun a g => List.foldl (umodeChar cfg (x.conn c) target)
        { a with modeSet := false } g.1) ({ x := x, modes := user.modes } : UModeAcc) modes = a at ha
      obtain ⟨hax, hass, haus⟩ := ha
      have haw := hax.w
      have hx' : CleanCtx (a.x.modifyW (fun w =>
          { w with users := Map.modify target (fun u => { u with modes := a.modes }) w.users })) := by
        refine cc_modifyW hax (cw_users haw (haw.users.modify _ ?_))
        intro u hu
        exact ⟨hu.hostname, hu.name, hu.realname, hu.source, hu.away, hu.channels, hu.invitedTo, hu.history⟩
      split
      · refine cc_replySrc hx' (cc_conn hx c).source ?_
        repeat' split
        all_goals simp (config := { decide := true }) [ht, hass, haus]
      · exact hx'

theorem cc_processMode {cfg : Cfg} {c : Nat} {target : Str} {modes : List (Str × List Str)} {x : Ctx}
    (hcfg : CleanCfg cfg) (ht : Clean target) (hms : CleanGroups modes) (hx : CleanCtx x) :
    CleanCtx (processMode cfg c target modes x) := by
  have hcn := cc_conn hx c
  unfold processMode
  dsimp only
  split
  · cc
  · split
    · split
      · rename_i ch hl
        have hch := cw_chan hx.w hl
        split
        · exact cc_processModeChannel hcfg ht hch hms hx
        · cc
      · cc
    · split
      · exact cc_processModeUser hcfg ht hx
      · cc

/-! ## 9. Step -/


theorem teardown_clean {w : World} {c : Nat} (h : CleanWorld w) : CleanWorld (teardown w c) := by
  unfold teardown
  split
  · exact h
  · dsimp only
    have h1 : ∀ w' : World, CleanWorld w' → CleanWorld
        { w' with conns := w'.conns.filter (·.id != c), connsCount := w'.connsCount - 1 } := by
      intro w' h'
      exact ⟨h'.users, h'.channels, h'.wallops, h'.histories,
        fun cn hcn => h'.conns cn (List.mem_filter.1 hcn).1⟩
    apply h1
    split
    · split
      · exact removeUser_clean h
      · exact h
    · exact h

/-- the lines delivered during one operation -/
def CleanOuts (outs : List (Nat × Str)) : Prop := ∀ o ∈ outs, Clean o.2

theorem settleConn_clean {cfg : Cfg} (hcfg : CleanCfg cfg) {acc : World × List (Nat × Str) × List Str}
    {c : Nat} (hw : CleanWorld acc.1) (ho : CleanOuts acc.2.1) :
    CleanWorld (settleConn cfg acc c).1 ∧ CleanOuts (settleConn cfg acc c).2.1 := by
  obtain ⟨w, outs, evs⟩ := acc
  unfold settleConn
  dsimp only
  split
  · exact ⟨hw, ho⟩
  · rename_i cn hcn
    have hc := cw_conn? hw hcn
    split
    · -- already quitting
      exact ⟨teardown_clean hw, ho⟩
    · split
      · rename_i killer comment hk
        have hkc := hc.killedBy _ hk
        dsimp only
        have hw' : CleanWorld (w.setConn { cn with quit := true, killedBy := none }) := by
          refine cw_setConn hw ⟨hc.hostname, hc.nick, hc.name, hc.realname, hc.password, hc.source, ?_⟩
          intro p hp; cases hp
        have ho' : CleanOuts (outs ++ [(c, ':' :: (cfg.name ++ ' ' :: (str "ERROR :User killed by " ++
            killer ++ str ": " ++ comment)))]) := by
          intro o hmem
          rcases List.mem_append.1 hmem with hmem | hmem
          · exact ho o hmem
          · simp only [List.mem_singleton] at hmem
            subst hmem
            have h1 : Clean killer := hkc.1
            have h2 : Clean comment := hkc.2
            have h3 := hcfg.name
            dsimp only
            clean_simp
            exact ⟨by decide, h3, by decide, by decide, h1, by decide, h2⟩
        simp only [if_true]
        exact ⟨teardown_clean hw', ho'⟩
      · dsimp only
        split
        · exact ⟨teardown_clean hw, ho⟩
        · exact ⟨hw, ho⟩


theorem settle_foldl_clean {cfg : Cfg} (hcfg : CleanCfg cfg) : ∀ {cs : List Nat}
    {acc : World × List (Nat × Str) × List Str}, CleanWorld acc.1 → CleanOuts acc.2.1 →
      CleanWorld (cs.foldl (settleConn cfg) acc).1 ∧ CleanOuts (cs.foldl (settleConn cfg) acc).2.1
  | [], _, hw, ho => ⟨hw, ho⟩
  | c :: cs, acc, hw, ho => by
    simp only [List.foldl_cons]
    have h := settleConn_clean hcfg (c := c) hw ho
    exact settle_foldl_clean hcfg h.1 h.2

theorem settle_clean {cfg : Cfg} (hcfg : CleanCfg cfg) {w : World} {outs : List (Nat × Str)}
    {evs : List Str} (hw : CleanWorld w) (ho : CleanOuts outs) :
    CleanWorld (settle cfg w outs evs).1 ∧ CleanOuts (settle cfg w outs evs).2.1 := by
  unfold settle
  exact settle_foldl_clean hcfg hw ho

theorem stepFinish_clean {cfg : Cfg} (hcfg : CleanCfg cfg) {c : Nat} {x : Ctx} {evs : List Str}
    (hx : CleanCtx x) :
    CleanWorld (finish cfg c x evs).w ∧ CleanOuts (finish cfg c x evs).outs := by
  unfold finish
  dsimp only
  have ho : CleanOuts (x.direct.map (fun l => (c, l)) ++ x.queued) := by
    intro o ho
    rcases List.mem_append.1 ho with ho | ho
    · simp only [List.mem_map] at ho
      obtain ⟨l, hl, rfl⟩ := ho
      exact hx.direct l hl
    · exact hx.queued o ho
  exact settle_clean hcfg hx.w ho

theorem cleanOuts_nil : CleanOuts [] := by intro o h; cases h

/-- the strings an event carries into the server: the address of a new connection and
    a received (already split) line.  The text of a `partialLine` never reaches a handler,
    so nothing is required of it. -/
def CleanEvent : Event → Prop
  | .connect _ ip => Clean ip
  | .line _ s => Clean s
  | _ => True


theorem init_clean {cfg : Cfg} (hcfg : CleanCfg cfg) : CleanWorld (World.init cfg) := by
  unfold World.init
  refine ⟨cleanMap_nil, ?_, cleanL_nil, cleanMap_nil, by intro cn h; cases h⟩
  dsimp only
  have key : ∀ (l : List ChanCfg) (m : Map Channel), (∀ c ∈ l, c ∈ cfg.channels) → CleanMap CleanChan m →
      CleanMap CleanChan (l.foldl (fun m c =>
        Map.insert c.name
          { topic := c.topic.map (fun t => { topic := t, nick := [] })
            modes := { c.modes with operators := [], halfOperators := [], voices := [],
                                    founders := [], protecteds := [] }
            defaultModes := { operators := c.modes.operators, halfOperators := c.modes.halfOperators,
                              voices := c.modes.voices, founders := c.modes.founders,
                              protecteds := c.modes.protecteds }
            preconfigured := true } m) m) := by
    intro l
    induction l with
    | nil => intro m _ hm; exact hm
    | cons c l ih =>
      intro m hl hm
      simp only [List.foldl_cons]
      refine ih _ (fun c' hc' => hl c' (List.mem_cons_of_mem _ hc')) ?_
      have hc := hcfg.channels c (hl c (List.mem_cons_self ..))
      have hmo := hc.2.2
      refine hm.insert hc.1 ⟨?_, ⟨hmo.ban, hmo.exception, hmo.inviteException, hmo.key, cleanL_nil,
        cleanL_nil, cleanL_nil, cleanL_nil, cleanL_nil⟩,
        ⟨hmo.operators, hmo.halfOperators, hmo.voices, hmo.founders, hmo.protecteds⟩, cleanMap_nil,
        cleanMap_nil⟩
      intro t ht
      dsimp only at ht
      cases hto : c.topic with
      | none => rw [hto] at ht; cases ht
      | some tt =>
        rw [hto] at ht; cases ht
        exact ⟨hc.2.1 tt hto, clean_nil⟩
  exact key _ _ (fun _ h => h) cleanMap_nil


/-- every handler maps a clean context to a clean context, given the clean command fields -/
theorem cc_dispatch {cfg : Cfg} {c : Nat} {msg : Message} {cmd : Command} {x : Ctx}
    (hcfg : CleanCfg cfg) (hm : CleanMsg msg) (hcmd : CleanCmd cmd) (hx : CleanCtx x) :
    CleanCtx (dispatch cfg c msg cmd x) := by
  have hcl := cc_clientName hx c
  cases cmd <;> simp only [dispatch, CleanCmd] at hcmd ⊢
  case CAP => exact cc_processCap hcfg hcmd hx
  case AUTHENTICATE => exact cc_processAuthenticate hcfg hx
  case PASS => exact cc_processPass hcfg hcmd hx
  case NICK => exact cc_processNick hcfg hcmd hm hx
  case USER => exact cc_processUser hcfg hcmd.1 hcmd.2.2.2 hx
  case PING => exact cc_processPing hcfg hcmd hx
  case PONG => exact cc_processPong hx
  case OPER => exact cc_processOper hcfg hx
  case QUIT => exact cc_processQuit hcfg hx
  case JOIN => exact cc_processJoin hcfg hcmd.1 hx
  case PART => exact cc_processPart hcfg hcmd.1 hcmd.2 hx
  case TOPIC => exact cc_processTopic hcfg hcmd.1 hcmd.2 hm hx
  case NAMES => exact cc_processNames hcfg hcmd hx
  case LIST => exact cc_processList hcfg hcmd.1 hx
  case INVITE => exact cc_processInvite hcfg hcmd.1 hcmd.2 hm hx
  case KICK => exact cc_processKick hcfg hcmd.1 hcmd.2.1 hcmd.2.2 hx
  case MOTD => exact cc_processMotd hcfg hcl hx
  case VERSION => exact cc_processVersion hcfg hx
  case ADMIN => exact cc_processAdmin hcfg hx
  case CONNECT => exact cc_unsupported hcfg hcl (by decide) hx
  case LUSERS => exact cc_processLusers hcfg hcl hx
  case TIME => exact cc_processTime hcfg hx
  case STATS => exact cc_processStats hcfg hcmd.1 hx
  case LINKS => exact cc_processLinks hcfg hx
  case HELP => exact cc_processHelp hcfg hcmd hx
  case INFO => exact cc_processInfo hcfg hx
  case MODE => exact cc_processMode hcfg hcmd.1 hcmd.2 hx
  case PRIVMSG => exact cc_processPrivmsgNotice hcfg hcmd.1 hcmd.2 hx
  case NOTICE => exact cc_processPrivmsgNotice hcfg hcmd.1 hcmd.2 hx
  case WHO => exact cc_processWho hcfg hcmd hx
  case WHOIS => exact cc_processWhois hcfg hcmd.1 hcmd.2 hx
  case WHOWAS => exact cc_processWhowas hcfg hcmd.1 hx
  case KILL => exact cc_processKill hcfg hcmd.1 hcmd.2 hx
  case REHASH => exact cc_unsupported hcfg hcl (by decide) hx
  case RESTART => exact cc_unsupported hcfg hcl (by decide) hx
  case SQUIT => exact cc_processSquit hcfg hcmd.1 hcmd.2 hx
  case AWAY => exact cc_processAway hcfg hcmd hx
  case USERHOST => exact cc_processUserhost hcfg hcmd hx
  case WALLOPS => exact cc_processWallops hcfg hm hx
  case ISON => exact cc_processIson hcfg hcmd hx
  case DIE => exact cc_processDie hcfg hcmd hx

/-- one received line: parse, command-error reply, registration gate, dispatch -/
theorem cc_handleLine {cfg : Cfg} {c : Nat} {s : Str} {x : Ctx} (hcfg : CleanCfg cfg) (hs : Clean s)
    (hx : CleanCtx x) : CleanCtx (handleLine cfg c s x) := by
  have hcl := cc_clientName hx c
  unfold handleLine
  dsimp only
  split
  · exact hx
  · exact cc_reply hcfg hx (by decide)
  · exact cc_reply hcfg hx (by decide)
  · rename_i msg hp
    have hm := parse_cleanMsg hs hp
    split
    · rename_i e he
      exact cc_reply hcfg hx (commandErrorReply_clean hcl (fromMessage_err hm he))
    · rename_i cmd hc
      have hcmd := fromMessage_ok hm hc
      have hx' : CleanCtx (x.modifyW (fun w => bumpCount w cmd.id.index)) :=
        cc_modifyW hx (bumpCount_clean hx.w _)
      split
      · exact cc_reply hcfg hx' (by simp [hcl])
      · exact cc_dispatch hcfg hm hcmd hx'

/-- `clean_step`: one operation keeps the world clean and emits only clean lines -/
theorem step_clean {cfg : Cfg} {w : World} {e : Event} (hcfg : CleanCfg cfg) (hw : CleanWorld w)
    (he : CleanEvent e) :
    CleanWorld (step cfg w e).w ∧ CleanOuts (step cfg w e).outs := by
  have hx0 : CleanCtx { w := w } := ⟨hw, cleanL_nil, by intro p h; cases h⟩
  cases e with
  | connect c ip =>
    have hnew : CleanWorld { w with conns := w.conns ++ [Conn.new c ip], connsCount := w.connsCount + 1 } := by
      refine ⟨hw.users, hw.channels, hw.wallops, hw.histories, ?_⟩
      intro cn hcn
      rcases List.mem_append.1 hcn with hcn | hcn
      · exact hw.conns cn hcn
      · simp only [List.mem_singleton] at hcn; subst hcn; exact Conn.new_clean c he
    simp only [step]
    repeat' split
    all_goals first
      | exact ⟨hw, cleanOuts_nil⟩
      | exact ⟨hnew, cleanOuts_nil⟩
  | line c s =>
    simp only [step]
    split
    · exact ⟨hw, cleanOuts_nil⟩
    · exact stepFinish_clean hcfg (cc_handleLine hcfg he hx0)
  | tooLong c =>
    simp only [step]
    split
    · exact ⟨hw, cleanOuts_nil⟩
    · rename_i cn hcn
      have hc := cw_conn? hw hcn
      refine stepFinish_clean hcfg (cc_setConn (cc_reply hcfg hx0 ?_) ?_)
      · simp [clientName_clean hc]
      · exact hc.of_eq rfl rfl rfl rfl rfl rfl rfl
  | badUtf8 c | eof c | reset c =>
    simp only [step]
    split
    · exact ⟨hw, cleanOuts_nil⟩
    · rename_i cn hcn
      have hc := cw_conn? hw hcn
      exact stepFinish_clean hcfg (cc_setConn hx0 (hc.of_eq rfl rfl rfl rfl rfl rfl rfl))
  | partialLine c s =>
    simp only [step]
    split <;> exact ⟨hw, cleanOuts_nil⟩


/-! ### runs -/

theorem foldl_step_clean {cfg : Cfg} (hcfg : CleanCfg cfg) : ∀ {evs : List Event} {w : World},
    CleanWorld w → (∀ e ∈ evs, CleanEvent e) →
      CleanWorld (evs.foldl (fun w e => (step cfg w e).w) w)
  | [], _, hw, _ => hw
  | e :: evs, w, hw, he => by
    simp only [List.foldl_cons]
    exact foldl_step_clean hcfg (step_clean hcfg hw (he e (List.mem_cons_self ..))).1
      (fun e' he' => he e' (List.mem_cons_of_mem _ he'))

theorem run_clean {cfg : Cfg} (hcfg : CleanCfg cfg) {evs : List Event} (he : ∀ e ∈ evs, CleanEvent e) :
    CleanWorld (run cfg evs) := by
  unfold run
  exact foldl_step_clean hcfg (init_clean hcfg) he

/-! ### one line on the wire -/

theorem splitOnChar_ne_nil (c : Char) : ∀ s : Str, splitOnChar c s ≠ []
  | [] => by simp [splitOnChar]
  | x :: xs => by
    unfold splitOnChar
    split
    · simp
    · split <;> simp

theorem splitOnChar_clean_append {s : Str} (h : Clean s) (t : Str) :
    splitOnChar nl (s ++ nl :: t) = s :: splitOnChar nl t := by
  induction s with
  | nil =>
    simp only [List.nil_append]
    conv => lhs; unfold splitOnChar
    split
    · rename_i heq; exact absurd heq (splitOnChar_ne_nil _ _)
    · rename_i p ps heq; simp [heq]
  | cons x xs ih =>
    have hx := clean_cons.1 h
    simp only [List.cons_append]
    conv => lhs; unfold splitOnChar
    rw [ih hx.2]
    simp [hx.1]

theorem splitOnChar_nl_eq {s : Str} (h : Clean s) : splitOnChar nl s = [s] := by
  induction s with
  | nil => simp [splitOnChar]
  | cons x xs ih =>
    have hx := clean_cons.1 h
    unfold splitOnChar
    rw [ih hx.2]
    simp [hx.1]

end Irc.C13H
