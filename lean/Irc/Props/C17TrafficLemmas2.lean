/-
  Lemmas for `Irc/Props/C17Traffic.lean`, part 2: the settling phase (`settle` / `finish` in
  `Irc/Step.lean`) only REMOVES connection records: for every connection number `d`, what `conn?` finds
  afterwards is either nothing or exactly the record it found before (`Surv`).  No invariant is assumed.
-/
import Irc.Props.C17TrafficLemmas
import Irc.InvProofs.Teardown
import Irc.Props.IdentLemmas

namespace Irc.C17T
open Irc Irc.Conc Irc.Tear

/-- every record that `conn?` finds in `w` is the one it finds in `w0` -/
def Surv (w0 w : World) : Prop := ∀ d, w.conn? d = none ∨ w.conn? d = w0.conn? d

theorem Surv.refl (w : World) : Surv w w := fun _ => Or.inr rfl

theorem Surv.trans {w0 w1 w2 : World} (h1 : Surv w0 w1) (h2 : Surv w1 w2) : Surv w0 w2 := by
  intro d
  rcases h2 d with h | h
  · exact Or.inl h
  · rcases h1 d with h' | h'
    · exact Or.inl (h.trans h')
    · exact Or.inr (h.trans h')

theorem find?_filter_ne (l : List Conn) (c d : Nat) :
    (l.filter (·.id != c)).find? (·.id == d) = if d = c then none else l.find? (·.id == d) := by
  induction l with
  | nil => simp
  | cons a l ih =>
    by_cases hac : a.id = c
    · have e : (a.id != c) = false := by simp [hac]
      rw [List.filter_cons, e]
      simp only [Bool.false_eq_true, ↓reduceIte]
      rw [ih]
      by_cases hdc : d = c
      · simp [hdc]
      · have e2 : (a.id == d) = false := by simp [hac, Ne.symm hdc]
        simp only [hdc, ↓reduceIte, List.find?_cons, e2]
    · have e : (a.id != c) = true := by simp [hac]
      rw [List.filter_cons, e]
      simp only [↓reduceIte, List.find?_cons]
      by_cases had : a.id = d
      · have hdc : ¬ d = c := by rw [← had]; exact hac
        have e2 : (a.id == d) = true := by simp [had]
        simp only [e2, hdc, ↓reduceIte]
      · have e2 : (a.id == d) = false := by simp [had]
        simp only [e2]
        exact ih

theorem teardown_conn? (w : World) (c d : Nat) :
    (teardown w c).conn? d = if d = c then none else w.conn? d := by
  unfold teardown
  cases hc : w.conn? c with
  | none =>
    dsimp only
    split
    · next h => rw [h, hc]
    · rfl
  | some cn =>
    dsimp only
    have e : ∀ w' : World, w'.conns = w.conns →
        World.conn? { w' with conns := w'.conns.filter (·.id != c), connsCount := w'.connsCount - 1 } d =
          if d = c then none else w.conn? d := by
      intro w' hw'
      unfold World.conn?
      dsimp only
      rw [hw']
      exact find?_filter_ne w.conns c d
    apply e
    split
    · split
      · exact removeUser_conns _ _
      · rfl
    · rfl

theorem surv_settleW (w : World) (c : Nat) : Surv w (settleW w c) := by
  intro d
  unfold settleW
  cases hc : w.conn? c with
  | none => exact Or.inr rfl
  | some cn =>
    dsimp only
    have hid : cn.id = c := conn?_id hc
    split
    · rw [teardown_conn?]
      split
      · exact Or.inl rfl
      · exact Or.inr rfl
    · split
      · rw [teardown_conn?]
        split
        · exact Or.inl rfl
        · next hdc =>
          refine Or.inr (conn?_setConn_ne w _ d ?_)
          show cn.id ≠ d
          rw [hid]; exact fun e => hdc e.symm
      · exact Or.inr rfl

theorem surv_foldl_settleW (l : List Nat) (w : World) : Surv w (l.foldl settleW w) := by
  induction l generalizing w with
  | nil => exact Surv.refl w
  | cons a l ih => exact (surv_settleW w a).trans (ih _)

theorem surv_settle (cfg : Cfg) (w : World) (outs : List (Nat × Str)) (evs : List Str) :
    Surv w (settle cfg w outs evs).1 := by
  unfold settle
  rw [settle_w]
  exact surv_foldl_settleW _ w

/-- the settling phase after a handler: every record still found is the one the handler left -/
theorem surv_finish (cfg : Cfg) (c : Nat) (x : Ctx) (evs : List Str) :
    Surv x.w (finish cfg c x evs).w := by
  unfold finish
  exact surv_settle cfg x.w _ evs

/-! ### exactly which records survive: the unflagged ones -/

/-- a record that the settling phase leaves alone: `quit` not set, no kill signal pending -/
def unflagged (o : Option Conn) : Option Conn :=
  o.bind (fun cn => if cn.quit || cn.killedBy.isSome then none else some cn)

theorem unflagged_idem (o : Option Conn) : unflagged (unflagged o) = unflagged o := by
  cases o with
  | none => rfl
  | some cn =>
    unfold unflagged
    simp only [Option.bind_some]
    split
    · rfl
    · next h => simp only [Option.bind_some, h, Bool.false_eq_true, ↓reduceIte]

theorem settleW_conn? (w : World) (c d : Nat) :
    (settleW w c).conn? d = if d = c then unflagged (w.conn? c) else w.conn? d := by
  unfold settleW
  cases hc : w.conn? c with
  | none =>
    dsimp only
    split
    · next h => rw [h, hc]; rfl
    · rfl
  | some cn =>
    dsimp only
    have hid : cn.id = c := conn?_id hc
    cases hq : cn.quit with
    | true =>
      simp only [↓reduceIte, teardown_conn?, unflagged, Option.bind_some, hq, Bool.true_or]
    | false =>
      cases hk : cn.killedBy with
      | some p =>
        simp only [Bool.false_eq_true, ↓reduceIte, teardown_conn?, unflagged, Option.bind_some, hq, hk,
          Option.isSome_some, Bool.or_true]
        split
        · rfl
        · next hdc =>
          refine conn?_setConn_ne w _ d ?_
          show cn.id ≠ d
          rw [hid]; exact fun e => hdc e.symm
      | none =>
        simp only [Bool.false_eq_true, ↓reduceIte, unflagged, Option.bind_some, hq, hk,
          Option.isSome_none, Bool.or_self]
        split
        · next h => rw [h, hc]
        · rfl

theorem foldl_settleW_conn? (l : List Nat) (w : World) (d : Nat) :
    (l.foldl settleW w).conn? d = if d ∈ l then unflagged (w.conn? d) else w.conn? d := by
  induction l generalizing w with
  | nil => simp
  | cons a l ih =>
    rw [List.foldl_cons, ih, settleW_conn?]
    by_cases hda : d = a
    · subst hda
      simp only [↓reduceIte, unflagged_idem, ite_self, List.mem_cons, true_or]
    · simp only [hda, ↓reduceIte, List.mem_cons, false_or]

/-- **the settling phase on connection records**: what `conn?` finds afterwards is exactly the record
    it found before if that record is unflagged, and nothing otherwise (no invariant assumed) -/
theorem settle_conn? (cfg : Cfg) (w : World) (outs : List (Nat × Str)) (evs : List Str) (d : Nat) :
    (settle cfg w outs evs).1.conn? d = unflagged (w.conn? d) := by
  unfold settle
  rw [settle_w, foldl_settleW_conn?]
  cases hc : w.conn? d with
  | none => simp [unflagged]
  | some cn =>
    have hm : d ∈ w.conns.map (·.id) := by
      unfold World.conn? at hc
      exact List.mem_map.mpr ⟨cn, List.mem_of_find?_eq_some hc, conn?_id hc⟩
    simp only [hm, ↓reduceIte]

theorem finish_conn? (cfg : Cfg) (c : Nat) (x : Ctx) (evs : List Str) (d : Nat) :
    (finish cfg c x evs).w.conn? d = unflagged (x.w.conn? d) := by
  unfold finish
  exact settle_conn? cfg x.w _ evs d

end Irc.C17T
