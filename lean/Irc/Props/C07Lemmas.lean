/-
  Helper lemmas for property C07 (JOIN admission).  Only facts about the model; the
  specification `Irc.C07.Spec` and the final theorems are in `Irc/Props/C07.lean`.
-/
import Irc.Lemmas.Frame
import Irc.Lemmas.Map
import Irc.Props.C14

namespace Irc.C07
open Irc Irc.Reply

/-! ### ban test in terms of `glob` -/

theorem banned_eq_glob (m : ChannelModes) (s : Str) :
    m.banned s = (m.ban.any (fun b => glob b s) && !(m.exception.any (fun e => glob e s))) := by
  simp only [ChannelModes.banned, C14.matchWildcard_eq_glob]

/-! ### folds of replies -/

/-- the line `feed_msg` writes for the reply text `e` -/
def srvLine (cfg : Cfg) (e : Str) : Str := ':' :: (cfg.name ++ ' ' :: e)

theorem foldl_reply (cfg : Cfg) (errs : List Str) (x : Ctx) :
    errs.foldl (fun x e => x.reply cfg e) x
      = { x with direct := x.direct ++ errs.map (srvLine cfg) } := by
  induction errs generalizing x with
  | nil => simp
  | cons e es ih =>
    rw [List.foldl_cons, ih]
    simp [Ctx.reply, srvLine]

/-! ### refused decisions change nothing -/

theorem joinApply_refused (nick : Str) (ds : List (Bool × Bool)) (chans : List Str) (w : World)
    (h : ∀ d ∈ ds, d.1 = false) : joinApply nick ds chans w = w := by
  induction ds generalizing chans w with
  | nil => cases chans <;> simp [joinApply]
  | cons d ds ih =>
    obtain ⟨j, cr⟩ := d
    have hj : j = false := h (j, cr) List.mem_cons_self
    subst hj
    cases chans with
    | nil => simp [joinApply]
    | cons chn chs =>
      simp only [joinApply, Bool.false_eq_true, ↓reduceIte]
      exact ih chs w (fun d hd => h d (List.mem_cons_of_mem _ hd))

theorem joinAnnounce_refused (cfg : Cfg) (c : Nat) (nick : Str) (ds : List (Bool × Bool))
    (chans : List Str) (x : Ctx) (h : ∀ d ∈ ds, d.1 = false) :
    joinAnnounce cfg c nick ds chans x = x := by
  induction ds generalizing chans x with
  | nil => cases chans <;> simp [joinAnnounce]
  | cons d ds ih =>
    obtain ⟨j, cr⟩ := d
    have hj : j = false := h (j, cr) List.mem_cons_self
    subst hj
    cases chans with
    | nil => simp [joinAnnounce]
    | cons chn chs =>
      simp only [joinAnnounce, Bool.false_eq_true, ↓reduceIte]
      exact ih chs x (fun d hd => h d (List.mem_cons_of_mem _ hd))

/-- the key list `process_join` passes to its first loop -/
def keyList (keys : Option (List Str)) : List (Option Str) :=
  match keys with
  | some ks => ks.map some
  | none => []

/-- `processJoin` in terms of its three loops (no panic branch taken). -/
theorem processJoin_eq (cfg : Cfg) (c : Nat) (chans : List Str) (keys : Option (List Str))
    (x : Ctx) (nick : Str) (user : User)
    (hn : (x.conn c).nick = some nick) (hu : Map.lookup nick x.w.users = some user) :
    processJoin cfg c chans keys x =
      let r := joinDecide cfg x.w (x.conn c) nick user.invitedTo chans (keyList keys)
                 user.channels.length
      joinAnnounce cfg c nick r.1 chans
        ((r.2.1.foldl (fun x e => x.reply cfg e) x).modifyW (joinApply nick r.1 chans)) := by
  simp only [processJoin, hn, hu, keyList]
  rfl

theorem processJoin_refused (cfg : Cfg) (c : Nat) (chans : List Str) (keys : Option (List Str))
    (x : Ctx) (nick : Str) (user : User)
    (hn : (x.conn c).nick = some nick) (hu : Map.lookup nick x.w.users = some user)
    (hall : ∀ d ∈ (joinDecide cfg x.w (x.conn c) nick user.invitedTo chans (keyList keys)
                    user.channels.length).1, d.1 = false) :
    processJoin cfg c chans keys x =
      { x with direct := x.direct ++
          (joinDecide cfg x.w (x.conn c) nick user.invitedTo chans (keyList keys)
            user.channels.length).2.1.map (srvLine cfg) } := by
  rw [processJoin_eq cfg c chans keys x nick user hn hu]
  simp only
  rw [joinAnnounce_refused _ _ _ _ _ _ hall, foldl_reply]
  simp only [Ctx.modifyW]
  rw [joinApply_refused _ _ _ _ hall]

end Irc.C07
