/-
  Helper lemmas for property C07 (JOIN admission).  Only facts about the model; the
  specification `Irc.C07.Spec` and the final theorems are in `Irc/Props/C07.lean`.
-/
import Irc.Lemmas.Frame
import Irc.Lemmas.Map
import Irc.Props.C14

namespace Irc.C07
open Irc Irc.Reply

/-! ### ban test in terms of `glob` -/

theorem banned_eq_glob (m : ChannelModes) (s : Str) :
    m.banned s = (m.ban.any (fun b => glob b s) && !(m.exception.any (fun e => glob e s))) := by
  simp only [ChannelModes.banned, C14.matchWildcard_eq_glob]

/-! ### folds of replies -/

/-- the line `feed_msg` writes for the reply text `e` -/
def srvLine (cfg : Cfg) (e : Str) : Str := ':' :: (cfg.name ++ ' ' :: e)

theorem foldl_reply (cfg : Cfg) (errs : List Str) (x : Ctx) :
    errs.foldl (fun x e => x.reply cfg e) x
      = { x with direct := x.direct ++ errs.map (srvLine cfg) } := by
  induction errs generalizing x with
  | nil => simp
  | cons e es ih =>
    rw [List.foldl_cons, ih]
    simp [Ctx.reply, srvLine]

/-! ### refused decisions change nothing -/

theorem joinApply_refused (nick : Str) (ds : List (Bool × Bool)) (chans : List Str) (w : World)
    (h : ∀ d ∈ ds, d.1 = false) : joinApply nick ds chans w = w := by
  induction ds generalizing chans w with
  | nil => cases chans <;> simp [joinApply]
  | cons d ds ih =>
    obtain ⟨j, cr⟩ := d
    have hj : j = false := h (j, cr) List.mem_cons_self
    subst hj
    cases chans with
    | nil => simp [joinApply]
    | cons chn chs =>
      simp only [joinApply, Bool.false_eq_true, ↓reduceIte]
      exact ih chs w (fun d hd => h d (List.mem_cons_of_mem _ hd))

theorem joinAnnounce_refused (cfg : Cfg) (c : Nat) (nick : Str) (ds : List (Bool × Bool))
    (chans : List Str) (x : Ctx) (h : ∀ d ∈ ds, d.1 = false) :
    joinAnnounce cfg c nick ds chans x = x := by
  induction ds generalizing chans x with
  | nil => cases chans <;> simp [joinAnnounce]
  | cons d ds ih =>
    obtain ⟨j, cr⟩ := d
    have hj : j = false := h (j, cr) List.mem_cons_self
    subst hj
    cases chans with
    | nil => simp [joinAnnounce]
    | cons chn chs =>
      simp only [joinAnnounce, Bool.false_eq_true, ↓reduceIte]
      exact ih chs x (fun d hd => h d (List.mem_cons_of_mem _ hd))

/-- the key list `process_join` passes to its first loop -/
def keyList (keys : Option (List Str)) : List (Option Str) :=
  match keys with
  | some ks => ks.map some
  | none => []

/-- `processJoin` in terms of its three loops (no panic branch taken). -/
theorem processJoin_eq (cfg : Cfg) (c : Nat) (chans : List Str) (keys : Option (List Str))
    (x : Ctx) (nick : Str) (user : User)
    (hn : (x.conn c).nick = some nick) (hu : Map.lookup nick x.w.users = some user) :
    processJoin cfg c chans keys x =
      let r := joinDecide cfg x.w (x.conn c) nick user.invitedTo chans (keyList keys)
                 user.channels.length
      joinAnnounce cfg c nick r.1 chans
        ((r.2.1.foldl (fun x e => x.reply cfg e) x).modifyW (joinApply nick r.1 chans)) := by
  simp only [processJoin, hn, hu, keyList]
  rfl

theorem processJoin_refused (cfg : Cfg) (c : Nat) (chans : List Str) (keys : Option (List Str))
    (x : Ctx) (nick : Str) (user : User)
    (hn : (x.conn c).nick = some nick) (hu : Map.lookup nick x.w.users = some user)
    (hall : ∀ d ∈ (joinDecide cfg x.w (x.conn c) nick user.invitedTo chans (keyList keys)
                    user.channels.length).1, d.1 = false) :
    processJoin cfg c chans keys x =
      { x with direct := x.direct ++
          (joinDecide cfg x.w (x.conn c) nick user.invitedTo chans (keyList keys)
            user.channels.length).2.1.map (srvLine cfg) } := by
  rw [processJoin_eq cfg c chans keys x nick user hn hu]
  simp only
  rw [joinAnnounce_refused _ _ _ _ _ _ hall, foldl_reply]
  simp only [Ctx.modifyW]
  rw [joinApply_refused _ _ _ _ hall]

/-! ### maps -/

theorem keys_insert_of_lookup_none {α : Type} (k : Str) (v : α) (m : Map α)
    (h : Map.lookup k m = none) : Map.keys (Map.insert k v m) = Map.keys m ++ [k] := by
  induction m with
  | nil => rfl
  | cons p m ih =>
    obtain ⟨k', v'⟩ := p
    simp only [Map.lookup] at h
    split at h
    · cases h
    · rename_i hne
      simp only [Map.insert, hne, ↓reduceIte]
      have := ih h
      simp only [Map.keys, List.map_cons, List.cons_append] at this ⊢
      rw [this]

theorem filter_ne_of_not_mem (k : Str) (l : List Str) (h : k ∉ l) : l.filter (· != k) = l := by
  rw [List.filter_eq_self]
  intro a ha
  simp only [bne_iff_ne, ne_eq]
  rintro rfl
  exact h ha

/-! ### `Channel.addUser` -/

/-- the member flags `add_user` gives: flag ↔ the nick is on the channel's default list -/
def defaultRanks (ch : Channel) (nick : Str) : ChanUserModes :=
  { founder := KSet.mem nick ch.defaultModes.founders
    prot := KSet.mem nick ch.defaultModes.protecteds
    voice := KSet.mem nick ch.defaultModes.voices
    operator := KSet.mem nick ch.defaultModes.operators
    halfOper := KSet.mem nick ch.defaultModes.halfOperators }

theorem addUser_users (ch : Channel) (nick : Str) :
    (ch.addUser nick).users = Map.insert nick (defaultRanks ch nick) ch.users := rfl

theorem addUser_lookup_self (ch : Channel) (nick : Str) :
    Map.lookup nick (ch.addUser nick).users = some (defaultRanks ch nick) := by
  rw [addUser_users, Map.lookup_insert_eq]

theorem addUser_lookup_other (ch : Channel) (nick n : Str) (h : n ≠ nick) :
    Map.lookup n (ch.addUser nick).users = Map.lookup n ch.users := by
  rw [addUser_users, Map.lookup_insert_ne _ _ _ _ (Ne.symm h)]

theorem addUser_frame (ch : Channel) (nick : Str) :
    (ch.addUser nick).topic = ch.topic ∧ (ch.addUser nick).defaultModes = ch.defaultModes ∧
    (ch.addUser nick).banInfo = ch.banInfo ∧ (ch.addUser nick).preconfigured = ch.preconfigured ∧
    (ch.addUser nick).modes.ban = ch.modes.ban ∧ (ch.addUser nick).modes.exception = ch.modes.exception ∧
    (ch.addUser nick).modes.inviteException = ch.modes.inviteException ∧
    (ch.addUser nick).modes.key = ch.modes.key ∧ (ch.addUser nick).modes.clientLimit = ch.modes.clientLimit ∧
    (ch.addUser nick).modes.inviteOnly = ch.modes.inviteOnly ∧
    (ch.addUser nick).modes.moderated = ch.modes.moderated ∧ (ch.addUser nick).modes.secret = ch.modes.secret ∧
    (ch.addUser nick).modes.protectedTopic = ch.modes.protectedTopic ∧
    (ch.addUser nick).modes.noExternalMessages = ch.modes.noExternalMessages :=
  ⟨rfl, rfl, rfl, rfl, rfl, rfl, rfl, rfl, rfl, rfl, rfl, rfl, rfl, rfl⟩

/-- the five rank lists after `add_user`: the nick is added to a list iff its flag is set -/
theorem addUser_rankLists (ch : Channel) (nick n : Str) :
    (KSet.mem n (ch.addUser nick).modes.founders =
      (KSet.mem n ch.modes.founders || (decide (n = nick) && (defaultRanks ch nick).founder))) ∧
    (KSet.mem n (ch.addUser nick).modes.protecteds =
      (KSet.mem n ch.modes.protecteds || (decide (n = nick) && (defaultRanks ch nick).prot))) ∧
    (KSet.mem n (ch.addUser nick).modes.operators =
      (KSet.mem n ch.modes.operators || (decide (n = nick) && (defaultRanks ch nick).operator))) ∧
    (KSet.mem n (ch.addUser nick).modes.halfOperators =
      (KSet.mem n ch.modes.halfOperators || (decide (n = nick) && (defaultRanks ch nick).halfOper))) ∧
    (KSet.mem n (ch.addUser nick).modes.voices =
      (KSet.mem n ch.modes.voices || (decide (n = nick) && (defaultRanks ch nick).voice))) := by
  simp only [Channel.addUser, defaultRanks]
  refine ⟨?_, ?_, ?_, ?_, ?_⟩ <;> split <;> simp [KSet.mem_insert, Bool.or_comm, *]


/-! ### NAMES part of the announcement -/

theorem foldl_reply_map {α : Type} (cfg : Cfg) (f : α → Str) (l : List α) (x : Ctx) :
    l.foldl (fun x a => x.reply cfg (f a)) x
      = { x with direct := x.direct ++ l.map (fun a => srvLine cfg (f a)) } := by
  induction l generalizing x with
  | nil => simp
  | cons e es ih =>
    rw [List.foldl_cons, ih]
    simp [Ctx.reply, srvLine]

def ctx0 : Ctx := { w := {} }

def namesBad (cfg : Cfg) (cn : Conn) (chn : Str) (ch : Channel) (users : Map User) : Bool :=
  (namesLines cfg cn chn ch users ctx0).w.panicked.isSome

def namesOut (cfg : Cfg) (cn : Conn) (chn : Str) (ch : Channel) (users : Map User) : List Str :=
  (namesLines cfg cn chn ch users ctx0).direct

theorem namesLines_eq (cfg : Cfg) (cn : Conn) (chn : Str) (ch : Channel) (users : Map User)
    (x : Ctx) :
    namesLines cfg cn chn ch users x =
      { (if namesBad cfg cn chn ch users then x.panic "names: member without user" else x) with
        direct := x.direct ++ namesOut cfg cn chn ch users } := by
  unfold namesBad namesOut namesLines
  simp only [foldl_reply_map]
  generalize List.any _ _ = B
  cases B <;> simp [ctx0, Ctx.panic, World.panic]

theorem namesBad_false (cfg : Cfg) (cn : Conn) (chn : Str) (ch : Channel) (users : Map User)
    (h : ∀ n ∈ Map.keys ch.users, Map.contains n users = true) :
    namesBad cfg cn chn ch users = false := by
  unfold namesBad namesLines
  simp only [foldl_reply_map]
  generalize hB : List.any _ _ = B
  cases B
  · simp [ctx0]
  · exfalso
    rw [List.any_eq_true] at hB
    obtain ⟨o, ho, hnone⟩ := hB
    simp only [List.mem_map] at ho
    obtain ⟨⟨n, m⟩, hp, rfl⟩ := ho
    have hn : n ∈ Map.keys ch.users := List.mem_map.mpr ⟨(n, m), hp, rfl⟩
    obtain ⟨u, hu⟩ := (Map.contains_iff _ _).mp (h n hn)
    simp only [hu] at hnone
    generalize (!u.modes.invisible || _) = c at hnone
    cases c <;> simp at hnone

/-- with all members present in the user table, `send_names_from_channel` only appends direct
    lines, and these depend on the world only -/
theorem sendNames_eq (cfg : Cfg) (c : Nat) (chn : Str) (ch : Channel) (theEnd : Bool) (x : Ctx)
    (h : ∀ n ∈ Map.keys ch.users, Map.contains n x.w.users = true) :
    sendNamesFromChannel cfg c chn ch theEnd x =
      { x with direct := x.direct ++ (sendNamesFromChannel cfg c chn ch theEnd { w := x.w }).direct } := by
  have hc : ({ w := x.w } : Ctx).conn c = x.conn c := rfl
  unfold sendNamesFromChannel
  simp only [hc, namesLines_eq, namesBad_false _ _ _ _ _ h]
  cases theEnd <;> split <;> split <;> simp [Ctx.reply]

/-! ### the announcement loop -/

/-- owner (connection id) of a nick; 0 for an unknown nick (never used under the hypotheses) -/
def ownerOf (users : Map User) (n : Str) : Nat :=
  match Map.lookup n users with
  | some u => u.owner
  | none => 0

theorem foldl_sendOthers (nick src t : Str) (ns : List Str) (x : Ctx)
    (h : ∀ n ∈ ns, n ≠ nick → Map.contains n x.w.users = true) :
    ns.foldl (fun x n => if n != nick then x.sendDisplay n src t else x) x =
      { x with queued := x.queued ++
          (ns.filter (· != nick)).map (fun n => (ownerOf x.w.users n, ':' :: (src ++ ' ' :: t))) } := by
  induction ns generalizing x with
  | nil => simp
  | cons n ns ih =>
    rw [List.foldl_cons]
    by_cases hn : n = nick
    · subst hn
      simp only [bne_self_eq_false, Bool.false_eq_true, ↓reduceIte, List.filter_cons]
      exact ih x (fun m hm => h m (List.mem_cons_of_mem _ hm))
    · have hb : (n != nick) = true := by simp [hn]
      obtain ⟨u, hu⟩ := (Map.contains_iff _ _).mp (h n List.mem_cons_self hn)
      simp only [hb, ↓reduceIte, List.filter_cons, List.map_cons]
      rw [Ctx.sendDisplay, Ctx.send_w_of_lookup _ _ _ hu, ih]
      · simp [ownerOf, hu]
      · exact fun m hm => h m (List.mem_cons_of_mem _ hm)

/-- the announcement of ONE accepted channel -/
theorem joinAnnounce_single (cfg : Cfg) (c : Nat) (nick chn : Str) (cr : Bool) (x : Ctx) (C : Channel)
    (hC : Map.lookup chn x.w.channels = some C)
    (hmem : ∀ n ∈ Map.keys C.users, Map.contains n x.w.users = true) :
    joinAnnounce cfg c nick [(true, cr)] [chn] x =
      { w := x.w
        direct := x.direct ++ (':' :: ((x.conn c).source ++ ' ' :: (str "JOIN " ++ chn))) ::
          ((match C.topic with
            | some t => [srvLine cfg (RplTopic332 (x.conn c).clientName chn t.topic)]
            | none => []) ++
           (sendNamesFromChannel cfg c chn C true { w := x.w }).direct)
        queued := x.queued ++ ((Map.keys C.users).filter (· != nick)).map (fun n =>
          (ownerOf x.w.users n, ':' :: ((x.conn c).source ++ ' ' :: (str "JOIN " ++ chn)))) } := by
  simp only [joinAnnounce, ↓reduceIte, hC]
  have hc1 : ∀ s t, (x.replySrc s t).conn c = x.conn c := fun _ _ => rfl
  have hc2 : ∀ (y : Ctx) t, (y.reply cfg t).conn c = y.conn c := fun _ _ => rfl
  cases hT : C.topic with
  | none =>
    simp only
    rw [sendNames_eq _ _ _ _ _ _ (by simpa using hmem), foldl_sendOthers _ _ _ _ _ (fun n hn _ => by simpa using hmem n hn)]
    simp
  | some t =>
    simp only
    rw [sendNames_eq _ _ _ _ _ _ (by simpa using hmem), foldl_sendOthers _ _ _ _ _ (fun n hn _ => by simpa using hmem n hn)]
    simp [srvLine]

/-! ### the insert loop on one accepted channel -/

/-- what `joinApply` does to the user record of the joiner for an accepted channel -/
def userJoined (chn : Str) (u : User) : User :=
  { u with channels := KSet.insert chn u.channels, invitedTo := KSet.erase chn u.invitedTo }

theorem joinApply_single (nick chn : Str) (w : World) (C : Channel)
    (hC : Map.lookup chn w.channels = some C) :
    joinApply nick [(true, false)] [chn] w =
      { w with users := Map.modify nick (userJoined chn) w.users
               channels := Map.insert chn (C.addUser nick) w.channels } := by
  simp only [joinApply, ↓reduceIte, hC, Bool.false_eq_true]
  rfl

theorem contains_modify {α : Type} (k k' : Str) (f : α → α) (m : Map α) :
    Map.contains k (Map.modify k' f m) = Map.contains k m := by
  simp only [Map.contains, Map.lookup_modify]
  split
  · cases Map.lookup k m <;> rfl
  · rfl

theorem ownerOf_modify (nick n chn : Str) (users : Map User) :
    ownerOf (Map.modify nick (userJoined chn) users) n = ownerOf users n := by
  simp only [ownerOf, Map.lookup_modify]
  by_cases h : nick = n
  · simp only [h, ↓reduceIte]
    cases Map.lookup n users <;> rfl
  · simp only [h, ↓reduceIte]


end Irc.C07
