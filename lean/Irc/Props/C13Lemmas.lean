/-
  Helper lemmas for property C13 (message grammar, relay round trip, command-layer totality).
  Only facts about the MODEL functions (`splitOnPred`, `splitAsciiWhitespace`, `splitTrailing`,
  `Message.parse`, `renderParams`, `asciiUpper` ..) live here; the property statements, the
  reference grammar and the final theorems are in `Irc/Props/C13.lean`.
-/
import Irc.Step
namespace Irc.C13
open Irc

/-! ### technical vocabulary (raw `Prop` forms of the hypotheses used in C13.lean) -/

/-- no char of `w` is ASCII whitespace -/
def WsFree (w : Str) : Prop := ∀ c ∈ w, isAsciiWhitespace c = false

/-- a "word": non-empty, no ASCII whitespace, does not start with ':' -/
def Word (w : Str) : Prop := w ≠ [] ∧ WsFree w ∧ startsWithChar ':' w = false

/-- `" p1 p2 .. pn"` -/
def middlesStr : List Str → Str
  | [] => []
  | p :: ps => ' ' :: p ++ middlesStr ps

/-- `""` or `" :text"` -/
def trailingStr : Option Str → Str
  | none => []
  | some t => ' ' :: ':' :: t

theorem WsFree.nil : WsFree [] := by intro c h; cases h

theorem WsFree.cons {c : Char} {w : Str} (hc : isAsciiWhitespace c = false) (hw : WsFree w) :
    WsFree (c :: w) := by
  intro d hd
  cases hd with
  | head => exact hc
  | tail _ h => exact hw d h

theorem WsFree.head {c : Char} {w : Str} (h : WsFree (c :: w)) : isAsciiWhitespace c = false :=
  h c (List.mem_cons_self ..)

theorem WsFree.tail {c : Char} {w : Str} (h : WsFree (c :: w)) : WsFree w :=
  fun d hd => h d (List.mem_cons_of_mem _ hd)

theorem WsFree.append {u v : Str} (hu : WsFree u) (hv : WsFree v) : WsFree (u ++ v) := by
  intro c hc
  rcases List.mem_append.mp hc with h | h
  · exact hu c h
  · exact hv c h

theorem isAsciiWhitespace_space : isAsciiWhitespace ' ' = true := by decide
theorem isAsciiWhitespace_colon : isAsciiWhitespace ':' = false := by decide
theorem isWhitespace_colon : isWhitespace ':' = false := by decide

/-! ### `splitOnPred` / `splitAsciiWhitespace` -/

theorem splitOnPred_ne_nil (p : Char → Bool) (s : Str) : splitOnPred p s ≠ [] := by
  cases s with
  | nil => simp [splitOnPred]
  | cons x xs =>
    simp only [splitOnPred]
    split
    · simp
    · split <;> simp

theorem splitOnPred_cons_sep {p : Char → Bool} {x : Char} (xs : Str) (h : p x = true) :
    splitOnPred p (x :: xs) = [] :: splitOnPred p xs := by
  simp only [splitOnPred]
  split
  · rename_i h'; exact absurd h' (splitOnPred_ne_nil p xs)
  · rename_i q qs h'; simp [h, h']

theorem splitOnPred_word_sep {p : Char → Bool} {x : Char} (w rest : Str)
    (hw : ∀ c ∈ w, p c = false) (hx : p x = true) :
    splitOnPred p (w ++ x :: rest) = w :: splitOnPred p rest := by
  induction w with
  | nil => exact splitOnPred_cons_sep rest hx
  | cons c w ih =>
    have hc : p c = false := hw c (List.mem_cons_self ..)
    have ih := ih (fun d hd => hw d (List.mem_cons_of_mem _ hd))
    simp only [List.cons_append, splitOnPred, ih, hc]
    simp

theorem splitOnPred_word {p : Char → Bool} (w : Str) (hw : ∀ c ∈ w, p c = false) :
    splitOnPred p w = [w] := by
  induction w with
  | nil => rfl
  | cons c w ih =>
    have hc : p c = false := hw c (List.mem_cons_self ..)
    have ih := ih (fun d hd => hw d (List.mem_cons_of_mem _ hd))
    simp only [splitOnPred, ih, hc]
    simp

theorem saw_nil : splitAsciiWhitespace [] = [] := by decide

theorem saw_sep {x : Char} (rest : Str) (hx : isAsciiWhitespace x = true) :
    splitAsciiWhitespace (x :: rest) = splitAsciiWhitespace rest := by
  simp [splitAsciiWhitespace, splitOnPred_cons_sep rest hx]

theorem saw_word_sep {x : Char} (w rest : Str) (hne : w ≠ []) (hw : WsFree w)
    (hx : isAsciiWhitespace x = true) :
    splitAsciiWhitespace (w ++ x :: rest) = w :: splitAsciiWhitespace rest := by
  cases w with
  | nil => exact absurd rfl hne
  | cons c w =>
    unfold splitAsciiWhitespace
    rw [splitOnPred_word_sep (c :: w) rest hw hx]
    simp

theorem saw_word (w : Str) (hne : w ≠ []) (hw : WsFree w) : splitAsciiWhitespace w = [w] := by
  cases w with
  | nil => exact absurd rfl hne
  | cons c w => simp [splitAsciiWhitespace, splitOnPred_word (c :: w) hw]

/-! ### `splitTrailing` -/

/-- only the whitespace-ness of the previous char matters -/
theorem splitTrailing_congr (p q : Char) (s : Str)
    (h : isAsciiWhitespace p = isAsciiWhitespace q) : splitTrailing p s = splitTrailing q s := by
  cases s with
  | nil => rfl
  | cons c cs => simp only [splitTrailing, h]

theorem splitTrailing_colon (p : Char) (t : Str) (hp : isAsciiWhitespace p = true) :
    splitTrailing p (':' :: t) = ([], some t) := by
  simp [splitTrailing, hp]

/-- a char that does not start the trailing is copied -/
theorem splitTrailing_cons {p c : Char} (cs : Str)
    (h : (c == ':' && isAsciiWhitespace p) = false) :
    splitTrailing p (c :: cs) = (c :: (splitTrailing c cs).1, (splitTrailing c cs).2) := by
  simp only [splitTrailing, h]
  simp

/-- a whitespace-free run that is not a ':' directly after a blank, followed by a blank -/
theorem splitTrailing_word_sp (w rest : Str) (p : Char) (hw : WsFree w)
    (h : isAsciiWhitespace p = false ∨ startsWithChar ':' w = false) :
    splitTrailing p (w ++ ' ' :: rest) =
      (w ++ ' ' :: (splitTrailing ' ' rest).1, (splitTrailing ' ' rest).2) := by
  induction w generalizing p with
  | nil =>
    rw [List.nil_append, splitTrailing_cons]
    · rfl
    · rfl
  | cons c w ih =>
    have hc : (c == ':' && isAsciiWhitespace p) = false := by
      rcases h with h | h
      · simp [h]
      · simp only [startsWithChar] at h; simp [h]
    rw [List.cons_append, splitTrailing_cons _ hc, ih c hw.tail (Or.inl hw.head)]
    rfl

theorem splitTrailing_word_end (w : Str) (p : Char) (hw : WsFree w)
    (h : isAsciiWhitespace p = false ∨ startsWithChar ':' w = false) :
    splitTrailing p w = (w, none) := by
  induction w generalizing p with
  | nil => rfl
  | cons c w ih =>
    have hc : (c == ':' && isAsciiWhitespace p) = false := by
      rcases h with h | h
      · simp [h]
      · simp only [startsWithChar] at h; simp [h]
    rw [splitTrailing_cons _ hc, ih c hw.tail (Or.inl hw.head)]

/-- the text before the trailing of a canonical parameter list: `" p1 .. pn"` plus one blank
    when a trailing follows -/
def bodyPre (ms : List Str) (tr : Option Str) : Str :=
  middlesStr ms ++ (match tr with | none => [] | some _ => [' '])

theorem splitTrailing_body (w : Str) (ms : List Str) (tr : Option Str) (p : Char)
    (hw : WsFree w) (hp : isAsciiWhitespace p = false ∨ startsWithChar ':' w = false)
    (hms : ∀ m ∈ ms, Word m) :
    splitTrailing p (w ++ (middlesStr ms ++ trailingStr tr)) = (w ++ bodyPre ms tr, tr) := by
  induction ms generalizing w p with
  | nil =>
    cases tr with
    | none => simpa [middlesStr, trailingStr, bodyPre] using splitTrailing_word_end w p hw hp
    | some t =>
      simp only [middlesStr, trailingStr, bodyPre, List.nil_append]
      rw [splitTrailing_word_sp w _ p hw hp, splitTrailing_colon ' ' t isAsciiWhitespace_space]
  | cons m ms ih =>
    have hm : Word m := hms m (List.mem_cons_self ..)
    have ih := ih m ' ' hm.2.1 (Or.inr hm.2.2) (fun x hx => hms x (List.mem_cons_of_mem _ hx))
    simp only [middlesStr, bodyPre, List.cons_append, List.append_assoc] at ih ⊢
    rw [splitTrailing_word_sp w _ p hw hp, ih]

theorem saw_body (w : Str) (ms : List Str) (tr : Option Str) (hne : w ≠ []) (hw : WsFree w)
    (hms : ∀ m ∈ ms, Word m) :
    splitAsciiWhitespace (w ++ bodyPre ms tr) = w :: ms := by
  induction ms generalizing w with
  | nil =>
    cases tr with
    | none => simpa [bodyPre, middlesStr] using saw_word w hne hw
    | some t =>
      simp only [bodyPre, middlesStr, List.nil_append]
      rw [saw_word_sep w [] hne hw isAsciiWhitespace_space, saw_nil]
  | cons m ms ih =>
    have hm : Word m := hms m (List.mem_cons_self ..)
    have ih := ih m hm.1 hm.2.1 (fun x hx => hms x (List.mem_cons_of_mem _ hx))
    simp only [middlesStr, bodyPre, List.cons_append, List.append_assoc] at ih ⊢
    rw [saw_word_sep w _ hne hw isAsciiWhitespace_space, ih]

/-! ### parsing a canonical line -/

theorem finish_cons (src : Option Str) (cmd : Str) (ms : List Str) (tr : Option Str) :
    Message.finish src (cmd :: ms) tr = .ok ⟨src, cmd, ms ++ tr.toList⟩ := by
  cases tr <;> simp [Message.finish]

/-- `":" source " " command (" " middle)* [" :" trailing]` parses to exactly its parts.
    No hypothesis on the trailing text at all. -/
theorem parse_canonical (s cmd : Str) (ms : List Str) (tr : Option Str)
    (hs : WsFree s) (hv : validateSource s = true) (hc : Word cmd) (hms : ∀ m ∈ ms, Word m) :
    Message.parse (':' :: s ++ ' ' :: cmd ++ (middlesStr ms ++ trailingStr tr)) =
      .ok ⟨some s, cmd, ms ++ tr.toList⟩ := by
  have hST : splitTrailing ':' (s ++ ' ' :: cmd ++ (middlesStr ms ++ trailingStr tr)) =
      (s ++ ' ' :: (cmd ++ bodyPre ms tr), tr) := by
    have h1 := splitTrailing_word_sp s (cmd ++ (middlesStr ms ++ trailingStr tr)) ':' hs
      (Or.inl isAsciiWhitespace_colon)
    have h2 := splitTrailing_body cmd ms tr ' ' hc.2.1 (Or.inr hc.2.2) hms
    simp only [List.append_assoc, List.cons_append] at h1 ⊢
    rw [h1, h2]
  have hW : splitAsciiWhitespace (':' :: (s ++ ' ' :: (cmd ++ bodyPre ms tr))) =
      (':' :: s) :: cmd :: ms := by
    have h1 := saw_word_sep (':' :: s) (cmd ++ bodyPre ms tr) (by simp)
      (WsFree.cons isAsciiWhitespace_colon hs) isAsciiWhitespace_space
    rw [List.cons_append] at h1
    rw [h1, saw_body cmd ms tr hc.1 hc.2.1 hms]
  have hT : trimStart (':' :: s ++ ' ' :: cmd ++ (middlesStr ms ++ trailingStr tr)) =
      ':' :: (s ++ ' ' :: cmd ++ (middlesStr ms ++ trailingStr tr)) := by
    simp [trimStart, isWhitespace_colon]
  unfold Message.parse
  rw [hT]
  simp only [hST, hW, List.drop_one, List.tail_cons, hv, finish_cons]
  simp

/-! ### `renderParams` produces a canonical parameter list -/

/-- the test of `to_string_with_source` deciding whether the last parameter gets `" :"` -/
def needsColon (t : Str) : Bool :=
  t.any (fun c => c == ':' || c == ' ' || c == '\t') || t.isEmpty

/-- every parameter but the last is a word; the last one either gets the `" :"` prefix or is
    free of ASCII whitespace -/
def ParamsOk : List Str → Prop
  | [] => True
  | [t] => needsColon t = true ∨ WsFree t
  | p :: q :: r => Word p ∧ ParamsOk (q :: r)

theorem str_space_colon : str " :" = [' ', ':'] := by decide
theorem str_space : str " " = [' '] := by decide

theorem word_of_not_needsColon (t : Str) (h : needsColon t = false) (hw : WsFree t) : Word t := by
  cases t with
  | nil => simp [needsColon] at h
  | cons c t =>
    refine ⟨by simp, hw, ?_⟩
    simp only [needsColon, List.any_cons, List.isEmpty_cons, Bool.or_false, Bool.or_eq_false_iff]
      at h
    simp only [startsWithChar]
    exact h.1.1.1

theorem renderParams_canonical (ps : List Str) (h : ParamsOk ps) :
    ∃ ms tr, (∀ m ∈ ms, Word m) ∧ renderParams ps = middlesStr ms ++ trailingStr tr ∧
      ms ++ tr.toList = ps := by
  induction ps with
  | nil => exact ⟨[], none, by simp, rfl, rfl⟩
  | cons p ps ih =>
    cases ps with
    | nil =>
      cases hn : needsColon p with
      | true =>
        refine ⟨[], some p, by simp, ?_, rfl⟩
        have hn' : (p.any (fun c => c == ':' || c == ' ' || c == '\t') || p.isEmpty) = true := hn
        simp only [renderParams, hn', if_true, str_space_colon, middlesStr, trailingStr]
        rfl
      | false =>
        have hw : WsFree p := by
          rcases h with h | h
          · rw [hn] at h; cases h
          · exact h
        have hW := word_of_not_needsColon p hn hw
        refine ⟨[p], none, ?_, ?_, rfl⟩
        · intro m hm; rw [List.mem_singleton.mp hm]; exact hW
        · have hn' : (p.any (fun c => c == ':' || c == ' ' || c == '\t') || p.isEmpty) = false := hn
          simp only [renderParams, hn', str_space, middlesStr, trailingStr]
          simp
    | cons q r =>
      obtain ⟨ms, tr, hms, hr, he⟩ := ih h.2
      refine ⟨p :: ms, tr, ?_, ?_, ?_⟩
      · intro m hm
        rcases List.mem_cons.mp hm with rfl | hm
        · exact h.1
        · exact hms m hm
      · simp only [renderParams, hr, middlesStr, List.append_assoc, List.cons_append]
      · simp [he]

/-- render then parse: the general round trip in raw form -/
theorem parse_render (m : Message) (s : Str) (hs : WsFree s) (hv : validateSource s = true)
    (hc : Word m.command) (hp : ParamsOk m.params) :
    Message.parse (m.render s) = .ok ⟨some s, m.command, m.params⟩ := by
  obtain ⟨ms, tr, hms, hr, he⟩ := renderParams_canonical m.params hp
  have := parse_canonical s m.command ms tr hs hv hc hms
  rw [he] at this
  rw [← this, Message.render, hr]

/-! ### verbs are matched case-insensitively -/

theorem ofNat_sub32 : ∀ n < 123, 97 ≤ n → (Char.ofNat (n - 32)).toNat = n - 32 := by decide

theorem asciiUpperChar_idem (c : Char) : asciiUpperChar (asciiUpperChar c) = asciiUpperChar c := by
  unfold asciiUpperChar
  split
  · rename_i h
    have h1 : 'a'.toNat = 97 := by decide
    have h2 : 'z'.toNat = 122 := by decide
    rw [h1, h2] at h
    have : (Char.ofNat (c.toNat - 32)).toNat = c.toNat - 32 := ofNat_sub32 _ (by omega) h.1
    simp only [this, h1, h2]
    rw [if_neg (by omega)]
  · rfl

theorem asciiUpper_idem (s : Str) : asciiUpper (asciiUpper s) = asciiUpper s := by
  induction s with
  | nil => rfl
  | cons c s ih =>
    simp only [asciiUpper, List.map_cons, asciiUpperChar_idem, List.map_map] at ih ⊢
    rw [ih]

/-- `parse_from_message` looks only at the upper-cased verb and the parameters -/
theorem parseFromMessage_congr (m m' : Message)
    (hc : asciiUpper m.command = asciiUpper m'.command) (hp : m.params = m'.params) :
    Command.parseFromMessage m = Command.parseFromMessage m' := by
  unfold Command.parseFromMessage
  simp only [hc, hp]

/-! ### glue: the decidable (`Bool`) hypotheses of C13.lean imply the raw ones -/

theorem wsFree_of_all (w : Str) (h : w.all (fun c => !isAsciiWhitespace c) = true) : WsFree w := by
  intro c hc
  have := List.all_eq_true.mp h c hc
  simpa using this

theorem word_of_bools (w : Str)
    (h : (!w.isEmpty && w.all (fun c => !isAsciiWhitespace c) && !startsWithChar ':' w) = true) :
    Word w := by
  simp only [Bool.and_eq_true, Bool.not_eq_true'] at h
  refine ⟨?_, wsFree_of_all w h.1.2, h.2⟩
  intro he; rw [he] at h; simp at h

theorem source_of_bools (s : Str)
    (h : (!s.isEmpty && s.all (fun c => !isWhitespace c && !isAsciiWhitespace c) &&
      validateSource s) = true) : WsFree s ∧ validateSource s = true := by
  simp only [Bool.and_eq_true] at h
  refine ⟨?_, h.2⟩
  intro c hc
  have := List.all_eq_true.mp h.1.2 c hc
  simp only [Bool.and_eq_true, Bool.not_eq_true'] at this
  exact this.2

theorem paramsOk_of (ps : List Str) (hmid : ∀ p ∈ ps.dropLast, Word p)
    (hlast : ∀ t, ps.getLast? = some t → needsColon t = true ∨ WsFree t) : ParamsOk ps := by
  induction ps with
  | nil => trivial
  | cons p ps ih =>
    cases ps with
    | nil => exact hlast p rfl
    | cons q r =>
      refine ⟨hmid p (by simp), ih ?_ ?_⟩
      · intro x hx; exact hmid x (by simp only [List.dropLast_cons_cons, List.mem_cons]; exact Or.inr hx)
      · intro t ht; exact hlast t (by simpa [List.getLast?_cons_cons] using ht)

/-! ### lines whose only blanks are spaces -/

/-- every whitespace char (Unicode `char::is_whitespace` or `u8::is_ascii_whitespace`) of `l`
    is the space -/
def OnlySp (l : Str) : Prop :=
  ∀ c ∈ l, (isWhitespace c = true ∨ isAsciiWhitespace c = true) → c = ' '

theorem onlySp_of_all (l : Str)
    (h : l.all (fun c => !(isWhitespace c || isAsciiWhitespace c) || c == ' ') = true) :
    OnlySp l := by
  intro c hc hw
  have := List.all_eq_true.mp h c hc
  simp only [Bool.or_eq_true, Bool.not_eq_true', Bool.or_eq_false_iff, beq_iff_eq] at this
  rcases this with this | this
  · rcases hw with hw | hw
    · rw [this.1] at hw; cases hw
    · rw [this.2] at hw; cases hw
  · exact this

theorem isWhitespace_space : isWhitespace ' ' = true := by decide

theorem trimStart_onlySp (l : Str) (h : OnlySp l) : trimStart l = l.dropWhile (· == ' ') := by
  induction l with
  | nil => rfl
  | cons c l ih =>
    have ih := ih (fun d hd => h d (List.mem_cons_of_mem _ hd))
    unfold trimStart at ih ⊢
    by_cases hc : c = ' '
    · subst hc
      simp only [List.dropWhile_cons, isWhitespace_space, if_true, beq_self_eq_true, ih]
    · have hw : isWhitespace c = false := by
        cases hw : isWhitespace c
        · rfl
        · exact absurd (h c (List.mem_cons_self ..) (Or.inl hw)) hc
      simp [hw, hc]

/-- what is left after dropping leading spaces starts with a non-space and is part of `l` -/
theorem dropWhile_sp_cons (l : Str) (c : Char) (cs : Str)
    (h : l.dropWhile (· == ' ') = c :: cs) : c ≠ ' ' ∧ ∀ x ∈ c :: cs, x ∈ l := by
  induction l with
  | nil => cases h
  | cons a l ih =>
    by_cases ha : a = ' '
    · subst ha
      simp only [List.dropWhile_cons, beq_self_eq_true, if_true] at h
      obtain ⟨h1, h2⟩ := ih h
      exact ⟨h1, fun x hx => List.mem_cons_of_mem _ (h2 x hx)⟩
    · simp only [List.dropWhile_cons, beq_iff_eq, ha, if_false] at h
      cases h
      exact ⟨ha, fun x hx => hx⟩

theorem dropWhile_sp_eq_nil (l : Str) :
    l.dropWhile (· == ' ') = [] ↔ l.all (· == ' ') = true := by
  induction l with
  | nil => simp
  | cons a l ih =>
    by_cases ha : a = ' '
    · subst ha; simpa using ih
    · simp [ha]

/-! ### the unprefixed last parameter: what the re-parse really yields -/

theorem splitTrailing_no_colon (x : Str) (p : Char) (h : ∀ c ∈ x, c ≠ ':') :
    splitTrailing p x = (x, none) := by
  induction x generalizing p with
  | nil => rfl
  | cons c x ih =>
    have hc : c ≠ ':' := h c (List.mem_cons_self ..)
    rw [splitTrailing_cons x (by simp [hc]), ih c (fun d hd => h d (List.mem_cons_of_mem _ hd))]

theorem splitTrailing_body_tail (w : Str) (ms : List Str) (rest : Str) (p : Char)
    (hw : WsFree w) (hp : isAsciiWhitespace p = false ∨ startsWithChar ':' w = false)
    (hms : ∀ m ∈ ms, Word m) :
    splitTrailing p (w ++ (middlesStr ms ++ ' ' :: rest)) =
      (w ++ (middlesStr ms ++ ' ' :: (splitTrailing ' ' rest).1), (splitTrailing ' ' rest).2) := by
  induction ms generalizing w p with
  | nil => simpa [middlesStr] using splitTrailing_word_sp w rest p hw hp
  | cons m ms ih =>
    have hm : Word m := hms m (List.mem_cons_self ..)
    have ih := ih m ' ' hm.2.1 (Or.inr hm.2.2) (fun x hx => hms x (List.mem_cons_of_mem _ hx))
    simp only [middlesStr, List.cons_append, List.append_assoc] at ih ⊢
    rw [splitTrailing_word_sp w _ p hw hp, ih]

theorem saw_body_tail (w : Str) (ms : List Str) (rest : Str) (hne : w ≠ []) (hw : WsFree w)
    (hms : ∀ m ∈ ms, Word m) :
    splitAsciiWhitespace (w ++ (middlesStr ms ++ ' ' :: rest)) =
      w :: (ms ++ splitAsciiWhitespace rest) := by
  induction ms generalizing w with
  | nil => simpa [middlesStr] using saw_word_sep w rest hne hw isAsciiWhitespace_space
  | cons m ms ih =>
    have hm : Word m := hms m (List.mem_cons_self ..)
    have ih := ih m hm.1 hm.2.1 (fun x hx => hms x (List.mem_cons_of_mem _ hx))
    simp only [middlesStr, List.cons_append, List.append_assoc] at ih ⊢
    rw [saw_word_sep w _ hne hw isAsciiWhitespace_space, ih]

/-- a last parameter written WITHOUT " :" (no ':' inside) is split again at its blanks -/
theorem parse_unprefixed (s cmd : Str) (ms : List Str) (t : Str)
    (hs : WsFree s) (hv : validateSource s = true) (hc : Word cmd) (hms : ∀ m ∈ ms, Word m)
    (ht : ∀ c ∈ t, c ≠ ':') :
    Message.parse (':' :: s ++ ' ' :: cmd ++ (middlesStr ms ++ ' ' :: t)) =
      .ok ⟨some s, cmd, ms ++ splitAsciiWhitespace t⟩ := by
  have hST : splitTrailing ':' (s ++ ' ' :: cmd ++ (middlesStr ms ++ ' ' :: t)) =
      (s ++ ' ' :: (cmd ++ (middlesStr ms ++ ' ' :: t)), none) := by
    have h1 := splitTrailing_word_sp s (cmd ++ (middlesStr ms ++ ' ' :: t)) ':' hs
      (Or.inl isAsciiWhitespace_colon)
    have h2 := splitTrailing_body_tail cmd ms t ' ' hc.2.1 (Or.inr hc.2.2) hms
    rw [splitTrailing_no_colon t ' ' ht] at h2
    simp only [List.append_assoc, List.cons_append] at h1 ⊢
    rw [h1, h2]
  have hW : splitAsciiWhitespace (':' :: (s ++ ' ' :: (cmd ++ (middlesStr ms ++ ' ' :: t)))) =
      (':' :: s) :: cmd :: (ms ++ splitAsciiWhitespace t) := by
    have h1 := saw_word_sep (':' :: s) (cmd ++ (middlesStr ms ++ ' ' :: t)) (by simp)
      (WsFree.cons isAsciiWhitespace_colon hs) isAsciiWhitespace_space
    rw [List.cons_append] at h1
    rw [h1, saw_body_tail cmd ms t hc.1 hc.2.1 hms]
  have hT : trimStart (':' :: s ++ ' ' :: cmd ++ (middlesStr ms ++ ' ' :: t)) =
      ':' :: (s ++ ' ' :: cmd ++ (middlesStr ms ++ ' ' :: t)) := by
    simp [trimStart, isWhitespace_colon]
  unfold Message.parse
  rw [hT]
  simp only [hST, hW, List.drop_one, List.tail_cons, hv, Message.finish]
  simp

theorem no_colon_of_not_needsColon (t : Str) (h : needsColon t = false) : ∀ c ∈ t, c ≠ ':' := by
  intro c hc hcol
  subst hcol
  simp only [needsColon, Bool.or_eq_false_iff, List.any_eq_false] at h
  have := h.1 ':' hc
  simp at this

theorem renderParams_unprefixed (ms : List Str) (t : Str) (h : needsColon t = false) :
    renderParams (ms ++ [t]) = middlesStr ms ++ ' ' :: t := by
  induction ms with
  | nil =>
    have hn' : (t.any (fun c => c == ':' || c == ' ' || c == '\t') || t.isEmpty) = false := h
    simp only [List.nil_append, renderParams, hn', str_space, middlesStr]
    simp
  | cons m ms ih =>
    cases hms : ms ++ [t] with
    | nil => simp at hms
    | cons q r =>
      rw [hms] at ih
      simp only [List.cons_append, hms, renderParams, ih, middlesStr, List.append_assoc]

theorem parse_render_unprefixed (m : Message) (s : Str) (ms : List Str) (t : Str)
    (hs : WsFree s) (hv : validateSource s = true) (hc : Word m.command)
    (hp : m.params = ms ++ [t]) (hms : ∀ p ∈ ms, Word p) (ht : needsColon t = false) :
    Message.parse (m.render s) = .ok ⟨some s, m.command, ms ++ splitAsciiWhitespace t⟩ := by
  rw [← parse_unprefixed s m.command ms t hs hv hc hms (no_colon_of_not_needsColon t ht),
    Message.render, hp, renderParams_unprefixed ms t ht]

/-- pieces of a split contain no separator -/
theorem splitOnPred_pieces (p : Char → Bool) (s : Str) :
    ∀ w ∈ splitOnPred p s, ∀ c ∈ w, p c = false := by
  induction s with
  | nil => intro w hw c hc; simp only [splitOnPred, List.mem_singleton] at hw; subst hw; cases hc
  | cons x xs ih =>
    intro w hw
    simp only [splitOnPred] at hw
    split at hw
    · simp only [List.mem_singleton] at hw; subst hw; intro c hc; cases hc
    · rename_i q qs heq
      rw [heq] at ih
      split at hw
      · rcases List.mem_cons.mp hw with rfl | hw
        · intro c hc; cases hc
        · exact ih w hw
      · rename_i hpx
        rcases List.mem_cons.mp hw with rfl | hw
        · intro c hc
          rcases List.mem_cons.mp hc with rfl | hc
          · simpa using hpx
          · exact ih q (List.mem_cons_self ..) c hc
        · exact ih w (List.mem_cons_of_mem _ hw)

theorem saw_wsFree (s : Str) : ∀ w ∈ splitAsciiWhitespace s, WsFree w ∧ w ≠ [] := by
  intro w hw
  simp only [splitAsciiWhitespace, List.mem_filter] at hw
  refine ⟨splitOnPred_pieces _ s w hw.1, ?_⟩
  intro he; rw [he] at hw; simp at hw

/-! ### every parsed message is well formed -/

theorem isWhitespace_of_ascii (c : Char) (h : isAsciiWhitespace c = true) :
    isWhitespace c = true := by
  simp only [isAsciiWhitespace, isWhitespace, Bool.or_eq_true, beq_iff_eq, Bool.and_eq_true,
    decide_eq_true_eq] at *
  omega

theorem dropWhile_head_not (p : Char → Bool) (l : Str) (c : Char) (cs : Str)
    (h : l.dropWhile p = c :: cs) : p c = false := by
  induction l with
  | nil => cases h
  | cons a l ih =>
    rw [List.dropWhile_cons] at h
    split at h
    · exact ih h
    · rename_i hpa; cases h; simpa using hpa

/-- no ':' directly after an ASCII blank (`p` = the char before the text) -/
def NoWsColon : Char → Str → Prop
  | _, [] => True
  | p, c :: cs => (c == ':' && isAsciiWhitespace p) = false ∧ NoWsColon c cs

theorem noWsColon_splitTrailing (p : Char) (cs : Str) : NoWsColon p (splitTrailing p cs).1 := by
  induction cs generalizing p with
  | nil => trivial
  | cons c cs ih =>
    cases h : (c == ':' && isAsciiWhitespace p)
    · rw [splitTrailing_cons cs h]; exact ⟨h, ih c⟩
    · simp only [splitTrailing, h, if_true]; trivial

/-- in a text without blank-colon, no piece after the first starts with ':' (nor does the
    first when the text follows a blank) -/
theorem pieces_no_colon (p : Char) (s : Str) (h : NoWsColon p s) :
    ∃ q qs, splitOnPred isAsciiWhitespace s = q :: qs ∧
      (isAsciiWhitespace p = true → startsWithChar ':' q = false) ∧
      ∀ w ∈ qs, startsWithChar ':' w = false := by
  induction s generalizing p with
  | nil => exact ⟨[], [], rfl, fun _ => rfl, by simp⟩
  | cons c s ih =>
    obtain ⟨q, qs, he, hq, hqs⟩ := ih c h.2
    cases hc : isAsciiWhitespace c
    · refine ⟨c :: q, qs, by simp [splitOnPred, he, hc], ?_, hqs⟩
      intro hp
      have := h.1
      rw [hp] at this
      simpa [startsWithChar] using this
    · refine ⟨[], q :: qs, by rw [splitOnPred_cons_sep s hc, he], fun _ => rfl, ?_⟩
      intro w hw
      rcases List.mem_cons.mp hw with rfl | hw
      · exact hq hc
      · exact hqs w hw

/-- the words of `from_shared_str`: the first one starts with `c0`, all others are `Word`s -/
theorem words_wellFormed (c0 : Char) (cs : Str) (h0 : isAsciiWhitespace c0 = false) :
    ∃ q ws, splitAsciiWhitespace (c0 :: (splitTrailing c0 cs).1) = (c0 :: q) :: ws ∧
      WsFree (c0 :: q) ∧ ∀ w ∈ ws, Word w := by
  obtain ⟨q, qs, he, -, hqs⟩ := pieces_no_colon c0 _ (noWsColon_splitTrailing c0 cs)
  have hsp : splitOnPred isAsciiWhitespace (c0 :: (splitTrailing c0 cs).1) = (c0 :: q) :: qs := by
    simp [splitOnPred, he, h0]
  have hpieces := splitOnPred_pieces isAsciiWhitespace (c0 :: (splitTrailing c0 cs).1)
  rw [hsp] at hpieces
  refine ⟨q, qs.filter (fun w => !w.isEmpty), by simp [splitAsciiWhitespace, hsp], ?_, ?_⟩
  · exact hpieces _ (List.mem_cons_self ..)
  · intro w hw
    obtain ⟨hw1, hw2⟩ := List.mem_filter.mp hw
    refine ⟨?_, hpieces w (List.mem_cons_of_mem _ hw1), hqs w hw1⟩
    intro he'; rw [he'] at hw2; simp at hw2

theorem mem_dropLast_append_toList (ps : List Str) (tr : Option Str) (p : Str)
    (h : p ∈ (ps ++ tr.toList).dropLast) : p ∈ ps := by
  cases tr with
  | none => simp only [Option.toList_none, List.append_nil] at h; exact List.dropLast_subset _ h
  | some t => simpa using h

/-- a message that came out of `Message.parse` has a `Word` command, `Word` middles (all
    parameters but the last), a blank-free valid source; and its last parameter is a `Word`
    unless it was the trailing -/
theorem parse_wellFormed_raw (l : Str) (m : Message) (h : Message.parse l = .ok m) :
    Word m.command ∧ (∀ p ∈ m.params.dropLast, Word p) ∧
    (∀ s, m.source = some s → WsFree s ∧ validateSource s = true) := by
  unfold Message.parse at h
  split at h
  · cases h
  · rename_i c0 cs hd
    have hws : isWhitespace c0 = false := dropWhile_head_not _ l c0 cs hd
    have h0 : isAsciiWhitespace c0 = false := by
      cases hh : isAsciiWhitespace c0
      · rfl
      · rw [isWhitespace_of_ascii c0 hh] at hws; cases hws
    obtain ⟨q, ws, he, hq, hws'⟩ := words_wellFormed c0 cs h0
    simp only [he, List.drop_one, List.tail_cons] at h
    split at h
    · -- source present
      split at h
      · cases h
      · rename_i hv
        cases ws with
        | nil => simp [Message.finish] at h
        | cons cmd ps =>
          rw [finish_cons] at h
          cases h
          refine ⟨hws' cmd (List.mem_cons_self ..), ?_, ?_⟩
          · intro p hp
            exact hws' p (List.mem_cons_of_mem _ (mem_dropLast_append_toList ps _ p hp))
          · intro s hs
            cases hs
            exact ⟨hq.tail, by simpa using hv⟩
    · rename_i hcol
      rw [finish_cons] at h
      cases h
      refine ⟨⟨by simp, hq, by simpa [startsWithChar] using hcol⟩, ?_, ?_⟩
      · intro p hp
        exact hws' p (mem_dropLast_append_toList ws _ p hp)
      · intro s hs; cases hs

theorem all_of_wsFree (w : Str) (h : WsFree w) : w.all (fun c => !isAsciiWhitespace c) = true := by
  apply List.all_eq_true.mpr
  intro c hc
  simp [h c hc]

theorem bools_of_word (w : Str) (h : Word w) :
    (!w.isEmpty && w.all (fun c => !isAsciiWhitespace c) && !startsWithChar ':' w) = true := by
  obtain ⟨h1, h2, h3⟩ := h
  simp only [Bool.and_eq_true, Bool.not_eq_true', all_of_wsFree w h2, h3, and_true]
  cases w with
  | nil => exact absurd rfl h1
  | cons c w => rfl

end Irc.C13
