/-
  Frame lemmas for C18, part 3: the handlers of `Irc/HRest.lean`.

  KILL / DIE / SQUIT are the only handlers that look at (and write) the record of a connection
  other than the acting one: `fireKill` reaches it through `User.owner`.  Their frame lemmas
  carry the hypothesis `NoOwn c w` (no registered user is owned by the foreign connection).
-/
import Irc.Props.C18FrameLemmas2

namespace Irc.C18F
open Irc Irc.Conc

/-! ### (A) -/
section
variable {cfg : Cfg} {cn : Conn} {d : Nat} {x : Ctx}

/-- a fold whose state is a context and one more component -/
@[fr_push] theorem sc_foldl_pair {α β : Type} (f : Ctx × β → α → Ctx × β)
    (hf : ∀ y b a, f (y.sc cn, b) a = ((f (y, b) a).1.sc cn, (f (y, b) a).2)) (l : List α) (b : β) :
    l.foldl f (x.sc cn, b) = ((l.foldl f (x, b)).1.sc cn, (l.foldl f (x, b)).2) := by
  induction l generalizing x b with
  | nil => rfl
  | cons a l ih => simp only [List.foldl_cons, hf, ih]

@[fr_push] theorem privmsgTarget_sc (hne : cn.id ≠ d) (nick : Str) (notice : Bool) (text target : Str) :
    privmsgTarget cfg d nick notice text target (x.sc cn) =
      ((privmsgTarget cfg d nick notice text target x).1.sc cn,
       (privmsgTarget cfg d nick notice text target x).2) := by
  unfold privmsgTarget
  fr

@[fr_push] theorem processPrivmsgNotice_sc (hne : cn.id ≠ d) (ts : List Str) (t : Str) (notice : Bool) :
    processPrivmsgNotice cfg d ts t notice (x.sc cn) =
      (processPrivmsgNotice cfg d ts t notice x).sc cn := by
  unfold processPrivmsgNotice
  fr

@[fr_push] theorem sendWhoInfo_sc (cn' : Conn) (chn : Option (Str × ChanUserModes)) (n : Str)
    (u cu : User) :
    sendWhoInfo cfg cn' chn n u cu (x.sc cn) = (sendWhoInfo cfg cn' chn n u cu x).sc cn := by
  unfold sendWhoInfo
  fr

@[fr_push] theorem processWho_sc (hne : cn.id ≠ d) (mask : Str) :
    processWho cfg d mask (x.sc cn) = (processWho cfg d mask x).sc cn := by
  unfold processWho
  fr

@[fr_push] theorem whoisOne_sc (cn' : Conn) (u : User) (n : Str) :
    whoisOne cfg cn' u n (x.sc cn) = (whoisOne cfg cn' u n x).sc cn := by
  unfold whoisOne
  fr

@[fr_push] theorem processWhois_sc (hne : cn.id ≠ d) (t : Option Str) (ns : List Str) :
    processWhois cfg d t ns (x.sc cn) = (processWhois cfg d t ns x).sc cn := by
  unfold processWhois
  fr

@[fr_push] theorem processWhowas_sc (hne : cn.id ≠ d) (n : Str) (cnt : Option Nat) (srv : Option Str) :
    processWhowas cfg d n cnt srv (x.sc cn) = (processWhowas cfg d n cnt srv x).sc cn := by
  unfold processWhowas
  fr

@[fr_push] theorem processAway_sc (hne : cn.id ≠ d) (t : Option Str) :
    processAway cfg d t (x.sc cn) = (processAway cfg d t x).sc cn := by
  unfold processAway
  fr

@[fr_push] theorem processUserhost_sc (hne : cn.id ≠ d) (ns : List Str) :
    processUserhost cfg d ns (x.sc cn) = (processUserhost cfg d ns x).sc cn := by
  unfold processUserhost
  fr

@[fr_push] theorem processWallops_sc (hne : cn.id ≠ d) (msg : Message) :
    processWallops cfg d msg (x.sc cn) = (processWallops cfg d msg x).sc cn := by
  unfold processWallops
  fr

@[fr_push] theorem processIson_sc (hne : cn.id ≠ d) (ns : List Str) :
    processIson cfg d ns (x.sc cn) = (processIson cfg d ns x).sc cn := by
  unfold processIson
  fr

end

/-! ### KILL / DIE / SQUIT -/
section
variable {cfg : Cfg} {cn : Conn} {c d : Nat} {x : Ctx}

theorem NoOwn.fire {w : World} (h : NoOwn c w) (k cm n : Str) : NoOwn c (fireKill k cm n w) := by
  have key : ∀ (u : User), Map.lookup n w.users = some u →
      NoOwn c { w with users := Map.insert n { u with killed := true } w.users } := by
    intro u hu m v hv
    simp only [Map.lookup_insert] at hv
    split at hv
    · cases hv; exact h n u hu
    · exact h m v hv
  unfold fireKill
  split
  · exact h
  · next u hu =>
    split
    · exact h
    · dsimp only
      split
      · exact key u hu
      · exact key u hu

theorem NoOwn.fire_foldl {w : World} (h : NoOwn c w) (k cm : Str) (l : List Str) :
    NoOwn c (l.foldl (fun w n => fireKill k cm n w) w) := by
  induction l generalizing w with
  | nil => exact h
  | cons a l ih => exact ih (h.fire k cm a)

theorem fireKill_scW (k cm n : Str) (w : World) (h : NoOwn cn.id w) :
    fireKill k cm n (w.scW cn) = (fireKill k cm n w).scW cn := by
  unfold fireKill
  simp only [scW_users]
  split
  · rfl
  · next u hu =>
    have ho : cn.id ≠ u.owner := fun e => h n u hu e.symm
    split
    · rfl
    · simp only [fr_read, fr_push, ne_eq, ho, not_false_eq_true]
      split
      · next cn' hc =>
        have hid : cn'.id = u.owner := conn?_id hc
        rw [scW_setConn]
        simp only [hid, ne_eq, ho, not_false_eq_true]
      · rfl

theorem fireKill_foldl_scW (k cm : Str) (l : List Str) (w : World) (h : NoOwn cn.id w) :
    l.foldl (fun w n => fireKill k cm n w) (w.scW cn) =
      (l.foldl (fun w n => fireKill k cm n w) w).scW cn := by
  induction l generalizing w with
  | nil => rfl
  | cons a l ih =>
    simp only [List.foldl_cons]
    rw [fireKill_scW k cm a w h, ih _ (h.fire k cm a)]

theorem processKill_sc (hne : cn.id ≠ d) (h : NoOwn cn.id x.w) (n cm : Str) :
    processKill cfg d n cm (x.sc cn) = (processKill cfg d n cm x).sc cn := by
  unfold processKill
  fr_simp
  repeat' split
  all_goals first
    | rfl
    | (show (x.sc cn).modifyW _ = (x.modifyW _).sc cn
       simp only [Ctx.modifyW, sc_w, fireKill_scW _ _ _ _ h]; rfl)

theorem processDie_sc (hne : cn.id ≠ d) (h : NoOwn cn.id x.w) (m : Option Str) :
    processDie cfg d m (x.sc cn) = (processDie cfg d m x).sc cn := by
  unfold processDie
  fr_simp
  repeat' split
  all_goals first
    | rfl
    | (show (x.sc cn).modifyW _ = (x.modifyW _).sc cn
       simp only [Ctx.modifyW, sc_w, scW_users, fireKill_foldl_scW _ _ _ _ h]; rfl)

theorem processSquit_sc (hne : cn.id ≠ d) (h : NoOwn cn.id x.w) (srv cm : Str) :
    processSquit cfg d srv cm (x.sc cn) = (processSquit cfg d srv cm x).sc cn := by
  unfold processSquit
  fr_simp
  split
  · rfl
  · exact processDie_sc hne h _

end

/-! ### (B) -/
section
variable {cfg : Cfg} {c d : Nat} {X Y : Ctx}

theorem Keep.foldl_pair {α β : Type} {f : Ctx × β → α → Ctx × β}
    (hf : ∀ p a, Keep c p.1 (f p a).1) {p : Ctx × β} (h : Keep c X p.1) (l : List α) :
    Keep c X (l.foldl f p).1 := by
  induction l generalizing p with
  | nil => exact h
  | cons a l ih => exact ih (h.trans (hf p a))

theorem keep_privmsgTarget {nick : Str} {notice : Bool} {text target : Str} :
    Keep c X (privmsgTarget cfg d nick notice text target X).1 := by
  unfold privmsgTarget
  dsimp only
  kp

theorem keep_processPrivmsgNotice {ts : List Str} {t : Str} {notice : Bool} :
    Keep c X (processPrivmsgNotice cfg d ts t notice X) := by
  unfold processPrivmsgNotice
  split
  · exact Keep.refl _
  · next nick _ =>
    dsimp only
    split
    · apply Keep.panic
      refine Keep.foldl_pair (p := (X, false)) ?_ (Keep.refl X) _
      intro p a; exact keep_privmsgTarget
    · refine Keep.foldl_pair (p := (X, false)) ?_ (Keep.refl X) _
      intro p a; exact keep_privmsgTarget

theorem keep_sendWhoInfo {cn : Conn} {chn : Option (Str × ChanUserModes)} {n : Str} {u cu : User} :
    Keep c X (sendWhoInfo cfg cn chn n u cu X) := by
  unfold sendWhoInfo
  kp
theorem Keep.then_sendWhoInfo {cn : Conn} {chn : Option (Str × ChanUserModes)} {n : Str} {u cu : User}
    (h : Keep c X Y) : Keep c X (sendWhoInfo cfg cn chn n u cu Y) := h.trans keep_sendWhoInfo
macro_rules | `(tactic| kp_lemma) => `(tactic| with_reducible apply Keep.then_sendWhoInfo)

theorem keep_processWho {mask : Str} : Keep c X (processWho cfg d mask X) := by
  unfold processWho
  dsimp only
  kp

theorem keep_whoisOne {cn : Conn} {u : User} {n : Str} : Keep c X (whoisOne cfg cn u n X) := by
  unfold whoisOne
  dsimp only
  kp
theorem Keep.then_whoisOne {cn : Conn} {u : User} {n : Str} (h : Keep c X Y) :
    Keep c X (whoisOne cfg cn u n Y) := h.trans keep_whoisOne
macro_rules | `(tactic| kp_lemma) => `(tactic| with_reducible apply Keep.then_whoisOne)

theorem keep_processWhois {t : Option Str} {ns : List Str} : Keep c X (processWhois cfg d t ns X) := by
  unfold processWhois
  dsimp only
  kp

theorem keep_processWhowas {n : Str} {cnt : Option Nat} {srv : Option Str} :
    Keep c X (processWhowas cfg d n cnt srv X) := by
  unfold processWhowas
  dsimp only
  kp

theorem keep_processAway {t : Option Str} : Keep c X (processAway cfg d t X) := by
  unfold processAway
  dsimp only
  kp

theorem keep_processUserhost {ns : List Str} : Keep c X (processUserhost cfg d ns X) := by
  unfold processUserhost
  dsimp only
  kp

theorem keep_processWallops {msg : Message} : Keep c X (processWallops cfg d msg X) := by
  unfold processWallops
  dsimp only
  kp

theorem keep_processIson {ns : List Str} : Keep c X (processIson cfg d ns X) := by
  unfold processIson
  dsimp only
  kp

/-! KILL / DIE / SQUIT: the record written is the one of the victim's owner -/

theorem fireKill_conn? (k cm n : Str) (w : World) (h : NoOwn c w) :
    (fireKill k cm n w).conn? c = w.conn? c := by
  unfold fireKill
  split
  · rfl
  · next u hu =>
    have ho : u.owner ≠ c := h n u hu
    split
    · rfl
    · dsimp only
      split
      · next cn' hc =>
        have hid : cn'.id = u.owner := conn?_id hc
        exact conn?_setConn_ne _ _ c (by simpa [hid] using ho)
      · rfl

theorem fireKill_foldl_conn? (k cm : Str) (l : List Str) (w : World) (h : NoOwn c w) :
    (l.foldl (fun w n => fireKill k cm n w) w).conn? c = w.conn? c := by
  induction l generalizing w with
  | nil => rfl
  | cons a l ih =>
    simp only [List.foldl_cons]
    rw [ih _ (h.fire k cm a), fireKill_conn? k cm a w h]

theorem keep_processKill (h : NoOwn c X.w) {n cm : Str} : Keep c X (processKill cfg d n cm X) := by
  unfold processKill
  dsimp only
  repeat' split
  all_goals first
    | exact Keep.refl _
    | exact fireKill_conn? _ _ _ _ h

theorem keep_processDie (h : NoOwn c X.w) {m : Option Str} : Keep c X (processDie cfg d m X) := by
  unfold processDie
  dsimp only
  repeat' split
  all_goals first
    | exact Keep.refl _
    | exact fireKill_foldl_conn? _ _ _ _ h

theorem keep_processSquit (h : NoOwn c X.w) {srv cm : Str} :
    Keep c X (processSquit cfg d srv cm X) := by
  unfold processSquit
  split
  · exact Keep.refl _
  · exact keep_processDie h

end

end Irc.C18F
