/-
  Property C18, general serialisability, part 8: the hypothesis `BumpCommLine` ("the handler of the
  line commutes with the counter bumps") discharged for the lines of the REGISTRATION PATH and a few
  more: every line that does not parse to a command, and NICK, PASS, USER, CAP, PING, PONG, QUIT,
  AUTHENTICATE — for every connection in every state.  (It holds for every command but `STATS m`;
  the other handlers are not needed for the split commands and are left as the explicit hypothesis.)
-/
import Irc.Props.C18GeneralLemmas7

namespace Irc.C18G

open Irc Irc.Conc Reply Irc.C18F

/-- the dispatcher of `cmd` commutes with the counter bumps -/
def BumpCommCmd (cfg : Cfg) (c : Nat) (msg : Message) (cmd : Command) : Prop :=
  ∀ i x, dispatch cfg c msg cmd (bmp i x) = bmp i (dispatch cfg c msg cmd x)

/-- a line that is not a command, or whose command's dispatcher commutes with the bumps -/
theorem bumpCommLine_of_cmd {cfg : Cfg} {c : Nat} {line : Str}
    (h : ∀ msg cmd, Message.parse line = .ok msg → Command.fromMessage msg = .ok cmd →
      BumpCommCmd cfg c msg cmd) : BumpCommLine cfg c line := by
  intro i x
  cases hp : Message.parse line with
  | error e => cases e <;> simp only [handleLine, hp] <;> rfl
  | ok msg =>
    cases hc : Command.fromMessage msg with
    | error e => simp only [handleLine, hp, hc]; rfl
    | ok cmd =>
      simp only [handleLine, hp, hc, bmp_conn]
      have e : (bmp i x).modifyW (fun w => bumpCount w cmd.id.index) =
          bmp i (x.modifyW (fun w => bumpCount w cmd.id.index)) := bmp_bmp i x cmd.id.index
      rw [e]
      by_cases hg : (!allowedUnregistered cmd && !(x.conn c).authenticated) = true
      · simp only [hg, ↓reduceIte]; rfl
      · simp only [hg]; exact h msg cmd hp hc i _

theorem authenticate_bmp (cfg : Cfg) (c : Nat) (x : Ctx) (i : Nat) :
    authenticate cfg c (bmp i x) = bmp i (authenticate cfg c x) := by
  cases hd : authDecision cfg (x.conn c) with
  | notReady => simp only [authenticate, bmp_conn, hd]
  | maskMismatch => simp only [authenticate, bmp_conn, hd]; rfl
  | decided good r =>
    cases good with
    | false => simp only [authenticate, bmp_conn, hd]; rfl
    | true =>
      rw [authenticate_good (x := bmp i x) (by rw [bmp_conn]; exact hd), authenticate_good hd,
        bmp_conn, commitWith_bmp]

theorem renameInChannels_bump (old new : Str) (chs : List Str) (w : World) (i : Nat) :
    renameInChannels old new chs (bumpCount w i) = bumpCount (renameInChannels old new chs w) i := by
  unfold renameInChannels
  induction chs generalizing w with
  | nil => rfl
  | cons chn chs ih =>
    simp only [List.foldl_cons]
    rw [← ih]
    congr 1
    show (match Map.lookup chn w.channels with
      | none => (bumpCount w i).panic "nick: channel of user missing"
      | some ch =>
        match ch.renameUser old new with
        | none => (bumpCount w i).panic "nick: user not in its channel"
        | some ch' => { bumpCount w i with channels := Map.insert chn ch' w.channels }) = _
    cases Map.lookup chn w.channels with
    | none => rfl
    | some ch =>
      dsimp only
      cases ch.renameUser old new <;> rfl

theorem sendAll_bmp (x : Ctx) (ns : List Str) (l : Str) (i : Nat) :
    (bmp i x).sendAll ns l = bmp i (x.sendAll ns l) := by
  unfold Ctx.sendAll
  induction ns generalizing x with
  | nil => rfl
  | cons n ns ih =>
    simp only [List.foldl_cons]
    rw [← ih]
    congr 1
    unfold Ctx.send
    simp only [bmp_users]
    cases Map.lookup n x.w.users <;> rfl

theorem processNick_bmp (cfg : Cfg) (c : Nat) (n : Str) (msg : Message) (x : Ctx) (i : Nat) :
    processNick cfg c n msg (bmp i x) = bmp i (processNick cfg c n msg x) := by
  unfold processNick
  simp only [bmp_conn, bmp_users]
  by_cases ha : (x.conn c).authenticated = true
  · simp only [ha, Bool.not_true, Bool.false_eq_true, ↓reduceIte]
    cases (x.conn c).nick with
    | none => rfl
    | some oldNick =>
      simp only
      by_cases hne : (n != oldNick) = true
      · simp only [hne, ↓reduceIte]
        by_cases hf : (!Map.contains n x.w.users) = true
        · simp only [hf, ↓reduceIte]
          cases hu : Map.lookup oldNick x.w.users with
          | none => rfl
          | some user =>
            simp only [bmp_setConn]
            have e : ∀ (y : Ctx) (f : World → World), (∀ w, f (bumpCount w i) = bumpCount (f w) i) →
                (bmp i y).modifyW f = bmp i (y.modifyW f) := by
              intro y f hf'
              simp only [Ctx.modifyW, bmp, hf']
            rw [e]
            · have hk : ∀ y : Ctx, Map.keys (bmp i y).w.users = Map.keys y.w.users := fun _ => rfl
              rw [hk, sendAll_bmp]
            · intro w
              show _ = bumpCount _ i
              have e1 : ({ bumpCount w i with users := Map.erase oldNick (bumpCount w i).users } :
                  World) = bumpCount { w with users := Map.erase oldNick w.users } i := rfl
              rw [e1, renameInChannels_bump]
              generalize renameInChannels oldNick n user.channels _ = W
              show (if KSet.mem oldNick W.wallops = true then _ else _) =
                bumpCount (if KSet.mem oldNick W.wallops = true then _ else _) i
              cases KSet.mem oldNick W.wallops <;> rfl
        · simp only [hf, Bool.false_eq_true, ↓reduceIte]; rfl
      · simp only [hne, Bool.false_eq_true, ↓reduceIte]
  · have ha' : (x.conn c).authenticated = false := by simpa using ha
    simp only [ha', Bool.not_false, ↓reduceIte]
    by_cases hf : (!Map.contains n x.w.users) = true
    · simp only [hf, ↓reduceIte, bmp_setConn, authenticate_bmp]
    · simp only [hf, Bool.false_eq_true, ↓reduceIte]; rfl

theorem processPass_bmp (cfg : Cfg) (c : Nat) (p : Str) (x : Ctx) (i : Nat) :
    processPass cfg c p (bmp i x) = bmp i (processPass cfg c p x) := by
  unfold processPass
  simp only [bmp_conn]
  by_cases ha : (!(x.conn c).authenticated) = true
  · simp only [ha, ↓reduceIte, bmp_setConn, authenticate_bmp]
  · simp only [ha]; rfl

theorem processUser_bmp (cfg : Cfg) (c : Nat) (u r : Str) (x : Ctx) (i : Nat) :
    processUser cfg c u r (bmp i x) = bmp i (processUser cfg c u r x) := by
  unfold processUser
  simp only [bmp_conn]
  by_cases ha : (!(x.conn c).authenticated) = true
  · simp only [ha, ↓reduceIte, bmp_setConn, authenticate_bmp]
  · simp only [ha]; rfl

theorem processCap_bmp (cfg : Cfg) (c : Nat) (sub : CapCommand) (caps : Option (List Str)) (x : Ctx)
    (i : Nat) : processCap cfg c sub caps (bmp i x) = bmp i (processCap cfg c sub caps x) := by
  unfold processCap
  simp only [bmp_conn]
  cases sub with
  | LS => rfl
  | LIST => rfl
  | REQ =>
    simp only
    cases caps with
    | none => rfl
    | some cs =>
      simp only
      by_cases hcs : (cs.all (· == str "multi-prefix")) = true
      · simp only [hcs, ↓reduceIte]; rfl
      · simp only [hcs]; rfl
  | END =>
    simp only [bmp_setConn]
    by_cases ha : (!(x.conn c).authenticated) = true
    · simp only [ha, ↓reduceIte]; exact authenticate_bmp cfg c _ i
    · have ha' : (!(x.conn c).authenticated) = false := by simpa using ha
      simp only [ha', Bool.false_eq_true, ↓reduceIte]

/-- the lines for which `BumpCommLine` is proved here -/
def isRegLine (line : Str) : Bool :=
  match lineCmd line with
  | some (.NICK _) | some (.PASS _) | some (.USER ..) | some (.CAP ..) | some (.PING _)
  | some (.PONG _) | some .QUIT | some .AUTHENTICATE | none => true
  | _ => false

/-- **`BumpCommLine` holds for the lines of the registration path** (and PING, PONG, QUIT,
    AUTHENTICATE, and every line that is not a well-formed command) -/
theorem bumpCommLine_registration (cfg : Cfg) (c : Nat) (line : Str)
    (h : isRegLine line = true) : BumpCommLine cfg c line := by
  apply bumpCommLine_of_cmd
  intro msg cmd hp hc
  have hl : lineCmd line = some cmd := by simp [lineCmd, hp, hc]
  unfold isRegLine at h
  rw [hl] at h
  intro i x
  cases cmd <;> first
    | exact processNick_bmp cfg c _ msg x i
    | exact processPass_bmp cfg c _ x i
    | exact processUser_bmp cfg c _ _ x i
    | exact processCap_bmp cfg c _ _ x i
    | exact absurd h Bool.false_ne_true
    | rfl

end Irc.C18G
