/-
  Frame lemmas for C18, part 1: the handlers of `Irc/HConn.lean`.
-/
import Irc.Props.C18FrameLemmas0

namespace Irc.C18F
open Irc Irc.Conc

section
variable {cfg : Cfg} {cn : Conn} {d : Nat} {x : Ctx}

@[fr_push] theorem sendIsupport_sc (client : Str) :
    sendIsupport cfg client (x.sc cn) = (sendIsupport cfg client x).sc cn := by
  unfold sendIsupport
  fr

@[fr_push] theorem processLusers_sc (client : Str) :
    processLusers cfg client (x.sc cn) = (processLusers cfg client x).sc cn := by
  unfold processLusers
  fr

@[fr_push] theorem unsupported_sc (client : Str) (s : String) :
    unsupported cfg client s (x.sc cn) = (unsupported cfg client s x).sc cn := rfl

@[fr_push] theorem processMotd_sc (client : Str) (t : Option Str) :
    processMotd cfg client t (x.sc cn) = (processMotd cfg client t x).sc cn := by
  unfold processMotd
  fr

@[fr_push] theorem welcomeBurst_sc (cn' : Conn) (um : Str) :
    welcomeBurst cfg cn' um (x.sc cn) = (welcomeBurst cfg cn' um x).sc cn := by
  unfold welcomeBurst
  fr

@[fr_push] theorem addUser_scW (w : World) (nick : Str) (u : User) :
    (w.scW cn).addUser nick u = (w.addUser nick u).scW cn := addUser_setConn w nick u cn

@[fr_push] theorem authenticate_sc (hne : cn.id ≠ d) :
    authenticate cfg d (x.sc cn) = (authenticate cfg d x).sc cn := by
  unfold authenticate
  fr

@[fr_push] theorem processCap_sc (hne : cn.id ≠ d) (sub : CapCommand) (caps : Option (List Str)) :
    processCap cfg d sub caps (x.sc cn) = (processCap cfg d sub caps x).sc cn := by
  unfold processCap
  fr

@[fr_push] theorem processAuthenticate_sc (hne : cn.id ≠ d) :
    processAuthenticate cfg d (x.sc cn) = (processAuthenticate cfg d x).sc cn := by
  unfold processAuthenticate
  fr

@[fr_push] theorem processPass_sc (hne : cn.id ≠ d) (p : Str) :
    processPass cfg d p (x.sc cn) = (processPass cfg d p x).sc cn := by
  unfold processPass
  fr

@[fr_push] theorem processUser_sc (hne : cn.id ≠ d) (u r : Str) :
    processUser cfg d u r (x.sc cn) = (processUser cfg d u r x).sc cn := by
  unfold processUser
  fr

@[fr_push] theorem renameInChannels_scW (old new : Str) (chs : List Str) (w : World) :
    renameInChannels old new chs (w.scW cn) = (renameInChannels old new chs w).scW cn := by
  unfold renameInChannels
  fr

@[fr_push] theorem pushHistory_scW (w : World) (n : Str) (e : HistEntry) :
    (w.scW cn).pushHistory n e = (w.pushHistory n e).scW cn := rfl

@[fr_push] theorem processNick_sc (hne : cn.id ≠ d) (n : Str) (msg : Message) :
    processNick cfg d n msg (x.sc cn) = (processNick cfg d n msg x).sc cn := by
  unfold processNick
  fr

@[fr_push] theorem processPing_sc (t : Str) :
    processPing cfg d t (x.sc cn) = (processPing cfg d t x).sc cn := rfl

@[fr_push] theorem processPong_sc (hne : cn.id ≠ d) :
    processPong cfg d (x.sc cn) = (processPong cfg d x).sc cn := by
  unfold processPong
  fr

@[fr_push] theorem processOper_sc (hne : cn.id ≠ d) (n p : Str) :
    processOper cfg d n p (x.sc cn) = (processOper cfg d n p x).sc cn := by
  unfold processOper
  fr

@[fr_push] theorem processQuit_sc (hne : cn.id ≠ d) :
    processQuit cfg d (x.sc cn) = (processQuit cfg d x).sc cn := by
  unfold processQuit
  fr

end

/-! ### (B) -/
section
variable {cfg : Cfg} {c d : Nat} {X Y : Ctx}

@[kp] theorem addUser_conns (w : World) (n : Str) (u : User) : (w.addUser n u).conns = w.conns := by
  unfold World.addUser
  kp_w

@[kp] theorem renameInChannels_conns (old new : Str) (chs : List Str) (w : World) :
    (renameInChannels old new chs w).conns = w.conns := by
  unfold renameInChannels
  induction chs generalizing w with
  | nil => rfl
  | cons a l ih => rw [List.foldl_cons, ih]; kp_w

@[kp] theorem pushHistory_conns (w : World) (n : Str) (e : HistEntry) :
    (w.pushHistory n e).conns = w.conns := rfl

theorem keep_sendIsupport {client : Str} : Keep c X (sendIsupport cfg client X) := by
  unfold sendIsupport
  kp
theorem Keep.then_sendIsupport {client : Str} (h : Keep c X Y) : Keep c X (sendIsupport cfg client Y) :=
  h.trans keep_sendIsupport
macro_rules | `(tactic| kp_lemma) => `(tactic| with_reducible apply Keep.then_sendIsupport)

theorem keep_processLusers {client : Str} : Keep c X (processLusers cfg client X) := by
  unfold processLusers
  dsimp only
  kp
theorem Keep.then_processLusers {client : Str} (h : Keep c X Y) : Keep c X (processLusers cfg client Y) :=
  h.trans keep_processLusers
macro_rules | `(tactic| kp_lemma) => `(tactic| with_reducible apply Keep.then_processLusers)

theorem keep_unsupported {client : Str} {s : String} : Keep c X (unsupported cfg client s X) := rfl
theorem Keep.then_unsupported {client : Str} {s : String} (h : Keep c X Y) : Keep c X (unsupported cfg client s Y) :=
  h.trans keep_unsupported
macro_rules | `(tactic| kp_lemma) => `(tactic| with_reducible apply Keep.then_unsupported)

theorem keep_processMotd {client : Str} {t : Option Str} : Keep c X (processMotd cfg client t X) := by
  unfold processMotd
  kp
theorem Keep.then_processMotd {client : Str} {t : Option Str} (h : Keep c X Y) : Keep c X (processMotd cfg client t Y) :=
  h.trans keep_processMotd
macro_rules | `(tactic| kp_lemma) => `(tactic| with_reducible apply Keep.then_processMotd)

theorem keep_welcomeBurst {cn : Conn} {um : Str} : Keep c X (welcomeBurst cfg cn um X) := by
  unfold welcomeBurst
  dsimp only
  kp
theorem Keep.then_welcomeBurst {cn : Conn} {um : Str} (h : Keep c X Y) : Keep c X (welcomeBurst cfg cn um Y) :=
  h.trans keep_welcomeBurst
macro_rules | `(tactic| kp_lemma) => `(tactic| with_reducible apply Keep.then_welcomeBurst)

theorem keep_authenticate (hdc : d ≠ c) : Keep c X (authenticate cfg d X) := by
  unfold authenticate
  dsimp only
  kp
theorem Keep.then_authenticate (h : Keep c X Y) (hdc : d ≠ c) : Keep c X (authenticate cfg d Y) :=
  h.trans (keep_authenticate hdc)
macro_rules | `(tactic| kp_lemma) => `(tactic| with_reducible apply Keep.then_authenticate)

theorem keep_processCap (hdc : d ≠ c) {sub : CapCommand} {caps : Option (List Str)} :
    Keep c X (processCap cfg d sub caps X) := by
  unfold processCap
  dsimp only
  kp

theorem keep_processAuthenticate : Keep c X (processAuthenticate cfg d X) := rfl

theorem keep_processPass (hdc : d ≠ c) {p : Str} : Keep c X (processPass cfg d p X) := by
  unfold processPass
  dsimp only
  kp

theorem keep_processUser (hdc : d ≠ c) {u r : Str} : Keep c X (processUser cfg d u r X) := by
  unfold processUser
  dsimp only
  kp

theorem keep_processNick (hdc : d ≠ c) {n : Str} {msg : Message} :
    Keep c X (processNick cfg d n msg X) := by
  unfold processNick
  dsimp only
  kp

theorem keep_processPing {t : Str} : Keep c X (processPing cfg d t X) := rfl

theorem keep_processPong (hdc : d ≠ c) : Keep c X (processPong cfg d X) := by
  unfold processPong
  kp

theorem keep_processOper {n p : Str} : Keep c X (processOper cfg d n p X) := by
  unfold processOper
  dsimp only
  kp

theorem keep_processQuit (hdc : d ≠ c) : Keep c X (processQuit cfg d X) := by
  unfold processQuit
  dsimp only
  kp

end

end Irc.C18F
