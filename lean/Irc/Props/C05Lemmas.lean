/-
  Irc.Props.C05Lemmas — helper lemmas for property C05 (no crash, nobody else is closed).

  The central notion is the *effect relation* `Eff cfg k q c X Y` between the handler context `X`
  before and `Y` after (part of) a handler run on behalf of connection `c`:
    * replies and queued lines are only ever appended (`<+:` = list prefix),
    * every connection record of `Y` stems from a record of `X` with the same id; the records of the
      connections other than `c` keep their `quit` flag, and are literally unchanged unless kills are
      allowed (`k = true`),
    * `c`'s own record keeps `quit` unless quitting is allowed (`q = true`) or the 464 reply
      (bad password) has been written, and keeps `killedBy` unless kills are allowed.
  It is reflexive, transitive, established by every context primitive and therefore -- handler by
  handler, with NO assumption on the state -- by all 41 command handlers.
-/
import Irc.InvProofs.Step

namespace Irc.C05
open Irc

/-! ### 1. `conn?` and `setConn` -/

theorem conn?_mem {w : World} {c : Nat} {cn : Conn} (h : w.conn? c = some cn) : cn ∈ w.conns :=
  List.mem_of_find?_eq_some h

theorem conn?_id {w : World} {c : Nat} {cn : Conn} (h : w.conn? c = some cn) : cn.id = c := by
  have := List.find?_some h
  simpa using this

theorem conn?_congr {w w' : World} (h : w'.conns = w.conns) (c : Nat) : w'.conn? c = w.conn? c := by
  unfold World.conn?; rw [h]

theorem conn_of_conn? {x : Ctx} {c : Nat} {cn : Conn} (h : x.w.conn? c = some cn) : x.conn c = cn := by
  unfold Ctx.conn; rw [h]; rfl

theorem conn_id (x : Ctx) (c : Nat) : (x.conn c).id = c := by
  unfold Ctx.conn
  cases h : x.w.conn? c with
  | none => rfl
  | some cn => exact conn?_id h

theorem find?_setConn (l : List Conn) (cn' : Conn) (c : Nat) :
    (l.map (fun x => if x.id == cn'.id then cn' else x)).find? (·.id == c) =
      if cn'.id = c then (l.find? (·.id == c)).map (fun _ => cn') else l.find? (·.id == c) := by
  induction l with
  | nil => simp
  | cons a l ih =>
    simp only [List.map_cons, List.find?_cons]
    by_cases h1 : a.id = cn'.id
    · have e1 : (a.id == cn'.id) = true := by simp [h1]
      simp only [e1, if_true]
      by_cases h2 : cn'.id = c
      · have e2 : (cn'.id == c) = true := by simp [h2]
        have e3 : (a.id == c) = true := by simp [h1, h2]
        simp only [e2, e3, if_pos h2, Option.map_some]
      · have e2 : (cn'.id == c) = false := by simp [h2]
        have e3 : (a.id == c) = false := by simp [h1, h2]
        simp only [e2, e3, if_neg h2]
        rw [ih, if_neg h2]
    · have e1 : (a.id == cn'.id) = false := by simp [h1]
      simp only [e1, Bool.false_eq_true, if_false]
      by_cases h3 : a.id = c
      · have e3 : (a.id == c) = true := by simp [h3]
        have h2 : ¬ cn'.id = c := fun e => h1 (h3.trans e.symm)
        simp only [e3, if_neg h2]
      · have e3 : (a.id == c) = false := by simp [h3]
        simp only [e3]
        rw [ih]

theorem conn?_setConn (w : World) (cn' : Conn) (c : Nat) :
    (w.setConn cn').conn? c =
      if cn'.id = c then (w.conn? c).map (fun _ => cn') else w.conn? c :=
  find?_setConn w.conns cn' c

theorem mem_setConn {w : World} {cn' y : Conn} (hy : y ∈ (w.setConn cn').conns) :
    (y ∈ w.conns ∧ y.id ≠ cn'.id) ∨ (y = cn' ∧ ∃ y1, y1 ∈ w.conns ∧ y1.id = cn'.id) := by
  have hy' : y ∈ w.conns.map (fun x => if x.id == cn'.id then cn' else x) := hy
  obtain ⟨y1, hy1, e⟩ := List.mem_map.mp hy'
  by_cases h : y1.id = cn'.id
  · simp only [h, beq_self_eq_true, ↓reduceIte] at e
    exact Or.inr ⟨e.symm, y1, hy1, h⟩
  · have e0 : (y1.id == cn'.id) = false := by simp [h]
    simp only [e0, Bool.false_eq_true, ↓reduceIte] at e
    subst e
    exact Or.inl ⟨hy1, h⟩

/-! ### 2. the effect relation -/

/-- the 464 reply (password mismatch) has been written to the acting connection -/
def Said464 (cfg : Cfg) (Y : Ctx) : Prop :=
  ∃ client, (':' :: (cfg.name ++ ' ' :: Reply.ErrPasswdMismatch464 client)) ∈ Y.direct

theorem Said464.mono {cfg : Cfg} {Y Z : Ctx} (h : Said464 cfg Y) (hd : Y.direct <+: Z.direct) :
    Said464 cfg Z := by
  obtain ⟨cl, hm⟩ := h
  exact ⟨cl, hd.subset hm⟩

structure Eff (cfg : Cfg) (k q : Bool) (c : Nat) (X Y : Ctx) : Prop where
  direct : X.direct <+: Y.direct
  queued : X.queued <+: Y.queued
  conns : ∀ y, y ∈ Y.w.conns → ∃ y0, y0 ∈ X.w.conns ∧ y0.id = y.id ∧
      (y.id ≠ c → y0.quit = y.quit ∧ (k = false → y0 = y))
  self : ∀ cn, X.w.conn? c = some cn → ∃ cn', Y.w.conn? c = some cn' ∧
      (cn'.quit = cn.quit ∨ q = true ∨ Said464 cfg Y) ∧ (k = false → cn'.killedBy = cn.killedBy)

section
variable {cfg : Cfg} {k q : Bool} {c : Nat} {X Y Z : Ctx}

theorem Eff.refl (X : Ctx) : Eff cfg k q c X X :=
  ⟨List.prefix_refl _, List.prefix_refl _,
   fun y hy => ⟨y, hy, rfl, fun _ => ⟨rfl, fun _ => rfl⟩⟩,
   fun cn h => ⟨cn, h, Or.inl rfl, fun _ => rfl⟩⟩

theorem Eff.trans (h1 : Eff cfg k q c X Y) (h2 : Eff cfg k q c Y Z) : Eff cfg k q c X Z := by
  refine ⟨h1.direct.trans h2.direct, h1.queued.trans h2.queued, ?_, ?_⟩
  · intro y hy
    obtain ⟨y1, hy1, hid1, hr1⟩ := h2.conns y hy
    obtain ⟨y0, hy0, hid0, hr0⟩ := h1.conns y1 hy1
    refine ⟨y0, hy0, hid0.trans hid1, fun hne => ?_⟩
    obtain ⟨a1, b1⟩ := hr1 hne
    obtain ⟨a0, b0⟩ := hr0 (by rw [hid1]; exact hne)
    exact ⟨a0.trans a1, fun hk => (b0 hk).trans (b1 hk)⟩
  · intro cn hcn
    obtain ⟨cn1, hcn1, hq1, hk1⟩ := h1.self cn hcn
    obtain ⟨cn2, hcn2, hq2, hk2⟩ := h2.self cn1 hcn1
    refine ⟨cn2, hcn2, ?_, fun hk => (hk2 hk).trans (hk1 hk)⟩
    rcases hq2 with e2 | e2 | e2
    · rcases hq1 with e1 | e1 | e1
      · exact Or.inl (e2.trans e1)
      · exact Or.inr (Or.inl e1)
      · exact Or.inr (Or.inr (e1.mono h2.direct))
    · exact Or.inr (Or.inl e2)
    · exact Or.inr (Or.inr e2)

/-- a context step that leaves the connection list alone and only appends lines -/
theorem Eff.post (h : Eff cfg k q c X Y) (hd : Y.direct <+: Z.direct) (hq : Y.queued <+: Z.queued)
    (hc : Z.w.conns = Y.w.conns) : Eff cfg k q c X Z := by
  refine h.trans ⟨hd, hq, ?_, ?_⟩
  · intro y hy
    rw [hc] at hy
    exact ⟨y, hy, rfl, fun _ => ⟨rfl, fun _ => rfl⟩⟩
  · intro cn hcn
    exact ⟨cn, by rw [conn?_congr hc]; exact hcn, Or.inl rfl, fun _ => rfl⟩

/-- the flags only grant permissions -/
theorem Eff.weaken {k' q' : Bool} (h : Eff cfg k q c X Y) (hk : k = true → k' = true)
    (hq : q = true → q' = true) : Eff cfg k' q' c X Y := by
  refine ⟨h.direct, h.queued, ?_, ?_⟩
  · intro y hy
    obtain ⟨y0, a, b, r⟩ := h.conns y hy
    refine ⟨y0, a, b, fun hne => ⟨(r hne).1, fun hk' => (r hne).2 ?_⟩⟩
    cases k with
    | false => rfl
    | true => rw [hk rfl] at hk'; cases hk'
  · intro cn hcn
    obtain ⟨cn', a, b, r⟩ := h.self cn hcn
    refine ⟨cn', a, ?_, fun hk' => r ?_⟩
    · rcases b with b | b | b
      · exact Or.inl b
      · exact Or.inr (Or.inl (hq b))
      · exact Or.inr (Or.inr b)
    · cases k with
      | false => rfl
      | true => rw [hk rfl] at hk'; cases hk'

theorem Eff.reply (h : Eff cfg k q c X Y) {cfg' : Cfg} {t : Str} : Eff cfg k q c X (Y.reply cfg' t) :=
  h.post (List.prefix_append _ _) (List.prefix_refl _) rfl

theorem Eff.replySrc (h : Eff cfg k q c X Y) {s t : Str} : Eff cfg k q c X (Y.replySrc s t) :=
  h.post (List.prefix_append _ _) (List.prefix_refl _) rfl

theorem send_queued_prefix (Y : Ctx) (n l : Str) : Y.queued <+: (Y.send n l).queued := by
  unfold Ctx.send; split
  · exact List.prefix_append _ _
  · exact List.prefix_refl _

theorem Eff.send (h : Eff cfg k q c X Y) {n l : Str} : Eff cfg k q c X (Y.send n l) :=
  h.post (by rw [Ctx.send_direct]; exact List.prefix_refl _) (send_queued_prefix Y n l) (Ctx.send_conns ..)

theorem Eff.sendDisplay (h : Eff cfg k q c X Y) {n s t : Str} : Eff cfg k q c X (Y.sendDisplay n s t) :=
  Eff.send h

theorem Eff.panic (h : Eff cfg k q c X Y) {s : String} : Eff cfg k q c X (Y.panic s) :=
  h.post (List.prefix_refl _) (List.prefix_refl _) rfl

theorem Eff.modifyW (h : Eff cfg k q c X Y) {f : World → World} (hf : ∀ w, (f w).conns = w.conns) :
    Eff cfg k q c X (Y.modifyW f) :=
  h.post (List.prefix_refl _) (List.prefix_refl _) (hf _)

theorem Eff.foldl {α : Type} {f : Ctx → α → Ctx} (hf : ∀ Y a, Eff cfg k q c Y (f Y a))
    (h : Eff cfg k q c X Y) (l : List α) : Eff cfg k q c X (l.foldl f Y) := by
  induction l generalizing Y with
  | nil => exact h
  | cons a l ih => exact ih (h.trans (hf Y a))

theorem Eff.sendAll (h : Eff cfg k q c X Y) {ns : List Str} {l : Str} :
    Eff cfg k q c X (Y.sendAll ns l) :=
  Eff.foldl (fun Y _ => Eff.send (Eff.refl Y)) h ns

/-- `setConn` of a record for `c` that keeps `quit` and `killedBy` of the current one -/
theorem Eff.setConn (h : Eff cfg k q c X Y) {cn' : Conn} (hid : cn'.id = c)
    (hq : ∀ cn, Y.w.conn? c = some cn → cn'.quit = cn.quit ∨ q = true)
    (hk : ∀ cn, Y.w.conn? c = some cn → cn'.killedBy = cn.killedBy) :
    Eff cfg k q c X (Y.setConn cn') := by
  refine h.trans ⟨List.prefix_refl _, List.prefix_refl _, ?_, ?_⟩
  · intro y hy
    rcases mem_setConn hy with ⟨hy0, _⟩ | ⟨rfl, y1, hy1, hid1⟩
    · exact ⟨y, hy0, rfl, fun _ => ⟨rfl, fun _ => rfl⟩⟩
    · exact ⟨y1, hy1, hid1, fun hne => absurd hid hne⟩
  · intro cn hcn
    refine ⟨cn', ?_, ?_, fun _ => hk cn hcn⟩
    · show (Y.w.setConn cn').conn? c = some cn'
      rw [conn?_setConn, if_pos hid, hcn]; rfl
    · rcases hq cn hcn with e | e
      · exact Or.inl e
      · exact Or.inr (Or.inl e)

end

/-- the closing tactic for side goals of `Eff.setConn` when the new record is `{ Y.conn c with … }` -/
macro "conn_side" : tactic =>
  `(tactic| (intro _ hcn; first
      | (left; rw [conn_of_conn? hcn]; done)
      | (rw [conn_of_conn? hcn]; done)
      | (right; rfl)))

/-- the work-horse: decompose a handler body into context primitives -/
macro "eff_steps" : tactic =>
  `(tactic| repeat' (first
    | exact Eff.refl _
    | assumption
    | apply Eff.reply
    | apply Eff.replySrc
    | apply Eff.sendDisplay
    | apply Eff.send
    | apply Eff.sendAll
    | apply Eff.panic
    | (refine Eff.setConn ?_ (conn_id _ _) (by conn_side) (by conn_side))
    | (refine Eff.foldl (fun _ _ => ?_) ?_ _; try dsimp only)
    | split))

/-! ### 3. HConn: registration, PING/PONG, OPER, QUIT -/

section
variable {cfg : Cfg} {k q : Bool} {c : Nat} {X Y : Ctx}

theorem eff_sendIsupport {client : Str} : Eff cfg k q c X (sendIsupport cfg client X) := by
  unfold sendIsupport
  eff_steps

theorem eff_processLusers {client : Str} : Eff cfg k q c X (processLusers cfg client X) := by
  unfold processLusers
  dsimp only
  eff_steps

theorem eff_unsupported {client : Str} {s : String} : Eff cfg k q c X (unsupported cfg client s X) := by
  unfold unsupported
  eff_steps

theorem eff_processMotd {client : Str} {t : Option Str} : Eff cfg k q c X (processMotd cfg client t X) := by
  unfold processMotd
  split
  · exact eff_unsupported
  · dsimp only; eff_steps

theorem eff_welcomeBurst {cn : Conn} {um : Str} : Eff cfg k q c X (welcomeBurst cfg cn um X) := by
  unfold welcomeBurst
  dsimp only
  apply Eff.reply
  refine Eff.trans ?_ eff_processMotd
  refine Eff.trans ?_ eff_processLusers
  refine Eff.trans ?_ eff_sendIsupport
  eff_steps

/-- wrong password: `quit` is set, and the 464 reply says so -/
theorem Eff.badPassword (h : Eff cfg k q c X Y) {cn' : Conn} (hid : cn'.id = c)
    (hk : ∀ cn, Y.w.conn? c = some cn → cn'.killedBy = cn.killedBy) {client : Str} :
    Eff cfg k q c X ((Y.setConn cn').reply cfg (Reply.ErrPasswdMismatch464 client)) := by
  refine h.trans ⟨List.prefix_append _ _, List.prefix_refl _, ?_, ?_⟩
  · intro y hy
    rcases mem_setConn hy with ⟨hy0, _⟩ | ⟨rfl, y1, hy1, hid1⟩
    · exact ⟨y, hy0, rfl, fun _ => ⟨rfl, fun _ => rfl⟩⟩
    · exact ⟨y1, hy1, hid1, fun hne => absurd hid hne⟩
  · intro cn hcn
    refine ⟨cn', ?_, Or.inr (Or.inr ⟨client, ?_⟩), fun _ => hk cn hcn⟩
    · show (Y.w.setConn cn').conn? c = some cn'
      rw [conn?_setConn, if_pos hid, hcn]; rfl
    · show _ ∈ Y.direct ++ [_]
      exact List.mem_append_right _ (List.mem_singleton.mpr rfl)

theorem processLusers_conns (client : Str) : (processLusers cfg client X).w.conns = X.w.conns := by
  unfold processLusers
  dsimp only
  split <;> rfl

theorem welcomeBurst_conns (cn : Conn) (um : Str) : (welcomeBurst cfg cn um X).w.conns = X.w.conns := by
  unfold welcomeBurst
  dsimp only
  rw [Ctx.reply_w, Reg.processMotd_w, processLusers_conns, Reg.sendIsupport_w]
  rfl

theorem addUser_conns (w : World) (n : Str) (u : User) : (w.addUser n u).conns = w.conns := by
  unfold World.addUser
  dsimp only
  repeat' split

theorem eff_authenticate : Eff cfg k q c X (authenticate cfg c X) := by
  unfold authenticate
  dsimp only
  eff_steps
  all_goals trace_state

end

end Irc.C05
