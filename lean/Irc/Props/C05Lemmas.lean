/-
  Irc.Props.C05Lemmas — helper lemmas for property C05 (no crash, nobody else is closed).

  The central notion is the *effect relation* `Eff cfg k q c X Y` between the handler context `X`
  before and `Y` after (part of) a handler run on behalf of connection `c`:
    * replies and queued lines are only ever appended (`<+:` = list prefix),
    * every connection record of `Y` stems from a record of `X` with the same id; the records of the
      connections other than `c` keep their `quit` flag, and are literally unchanged unless kills are
      allowed (`k = true`),
    * `c`'s own record keeps `quit` unless quitting is allowed (`q = true`) or the 464 reply
      (bad password) has been written, and keeps `killedBy` unless kills are allowed.
  It is reflexive, transitive, established by every context primitive and therefore -- handler by
  handler, with NO assumption on the state -- by all 41 command handlers.
-/
import Irc.InvProofs.Step

namespace Irc.C05
open Irc

/-! ### 1. `conn?` and `setConn` -/

theorem conn?_mem {w : World} {c : Nat} {cn : Conn} (h : w.conn? c = some cn) : cn ∈ w.conns :=
  List.mem_of_find?_eq_some h

theorem conn?_id {w : World} {c : Nat} {cn : Conn} (h : w.conn? c = some cn) : cn.id = c := by
  have := List.find?_some h
  simpa using this

theorem conn?_congr {w w' : World} (h : w'.conns = w.conns) (c : Nat) : w'.conn? c = w.conn? c := by
  unfold World.conn?; rw [h]

theorem conn_of_conn? {x : Ctx} {c : Nat} {cn : Conn} (h : x.w.conn? c = some cn) : x.conn c = cn := by
  unfold Ctx.conn; rw [h]; rfl

theorem conn_id (x : Ctx) (c : Nat) : (x.conn c).id = c := by
  unfold Ctx.conn
  cases h : x.w.conn? c with
  | none => rfl
  | some cn => exact conn?_id h

theorem find?_setConn (l : List Conn) (cn' : Conn) (c : Nat) :
    (l.map (fun x => if x.id == cn'.id then cn' else x)).find? (·.id == c) =
      if cn'.id = c then (l.find? (·.id == c)).map (fun _ => cn') else l.find? (·.id == c) := by
  induction l with
  | nil => simp
  | cons a l ih =>
    simp only [List.map_cons, List.find?_cons]
    by_cases h1 : a.id = cn'.id
    · have e1 : (a.id == cn'.id) = true := by simp [h1]
      simp only [e1, if_true]
      by_cases h2 : cn'.id = c
      · have e2 : (cn'.id == c) = true := by simp [h2]
        have e3 : (a.id == c) = true := by simp [h1, h2]
        simp only [e2, e3, if_pos h2, Option.map_some]
      · have e2 : (cn'.id == c) = false := by simp [h2]
        have e3 : (a.id == c) = false := by simp [h1, h2]
        simp only [e2, e3, if_neg h2]
        rw [ih, if_neg h2]
    · have e1 : (a.id == cn'.id) = false := by simp [h1]
      simp only [e1, Bool.false_eq_true, if_false]
      by_cases h3 : a.id = c
      · have e3 : (a.id == c) = true := by simp [h3]
        have h2 : ¬ cn'.id = c := fun e => h1 (h3.trans e.symm)
        simp only [e3, if_neg h2]
      · have e3 : (a.id == c) = false := by simp [h3]
        simp only [e3]
        rw [ih]

theorem conn?_setConn (w : World) (cn' : Conn) (c : Nat) :
    (w.setConn cn').conn? c =
      if cn'.id = c then (w.conn? c).map (fun _ => cn') else w.conn? c :=
  find?_setConn w.conns cn' c

theorem mem_setConn {w : World} {cn' y : Conn} (hy : y ∈ (w.setConn cn').conns) :
    (y ∈ w.conns ∧ y.id ≠ cn'.id) ∨ (y = cn' ∧ ∃ y1, y1 ∈ w.conns ∧ y1.id = cn'.id) := by
  have hy' : y ∈ w.conns.map (fun x => if x.id == cn'.id then cn' else x) := hy
  obtain ⟨y1, hy1, e⟩ := List.mem_map.mp hy'
  by_cases h : y1.id = cn'.id
  · simp only [h, beq_self_eq_true, ↓reduceIte] at e
    exact Or.inr ⟨e.symm, y1, hy1, h⟩
  · have e0 : (y1.id == cn'.id) = false := by simp [h]
    simp only [e0, Bool.false_eq_true, ↓reduceIte] at e
    subst e
    exact Or.inl ⟨hy1, h⟩

/-! ### 2. the effect relation -/

/-- the 464 reply (password mismatch) has been written to the acting connection -/
def Said464 (cfg : Cfg) (Y : Ctx) : Prop :=
  ∃ client, (':' :: (cfg.name ++ ' ' :: Reply.ErrPasswdMismatch464 client)) ∈ Y.direct

theorem Said464.mono {cfg : Cfg} {Y Z : Ctx} (h : Said464 cfg Y) (hd : Y.direct <+: Z.direct) :
    Said464 cfg Z := by
  obtain ⟨cl, hm⟩ := h
  exact ⟨cl, hd.subset hm⟩

structure Eff (cfg : Cfg) (k q : Bool) (c : Nat) (X Y : Ctx) : Prop where
  direct : X.direct <+: Y.direct
  queued : X.queued <+: Y.queued
  conns : ∀ y, y ∈ Y.w.conns → ∃ y0, y0 ∈ X.w.conns ∧ y0.id = y.id ∧
      (y.id ≠ c → y0.quit = y.quit ∧ (k = false → y0 = y))
  self : ∀ cn, X.w.conn? c = some cn → ∃ cn', Y.w.conn? c = some cn' ∧
      (cn'.quit = cn.quit ∨ q = true ∨ Said464 cfg Y) ∧ (k = false → cn'.killedBy = cn.killedBy)

section
variable {cfg : Cfg} {k q : Bool} {c : Nat} {X Y Z : Ctx}

theorem Eff.refl (X : Ctx) : Eff cfg k q c X X :=
  ⟨List.prefix_refl _, List.prefix_refl _,
   fun y hy => ⟨y, hy, rfl, fun _ => ⟨rfl, fun _ => rfl⟩⟩,
   fun cn h => ⟨cn, h, Or.inl rfl, fun _ => rfl⟩⟩

theorem Eff.trans (h1 : Eff cfg k q c X Y) (h2 : Eff cfg k q c Y Z) : Eff cfg k q c X Z := by
  refine ⟨h1.direct.trans h2.direct, h1.queued.trans h2.queued, ?_, ?_⟩
  · intro y hy
    obtain ⟨y1, hy1, hid1, hr1⟩ := h2.conns y hy
    obtain ⟨y0, hy0, hid0, hr0⟩ := h1.conns y1 hy1
    refine ⟨y0, hy0, hid0.trans hid1, fun hne => ?_⟩
    obtain ⟨a1, b1⟩ := hr1 hne
    obtain ⟨a0, b0⟩ := hr0 (by rw [hid1]; exact hne)
    exact ⟨a0.trans a1, fun hk => (b0 hk).trans (b1 hk)⟩
  · intro cn hcn
    obtain ⟨cn1, hcn1, hq1, hk1⟩ := h1.self cn hcn
    obtain ⟨cn2, hcn2, hq2, hk2⟩ := h2.self cn1 hcn1
    refine ⟨cn2, hcn2, ?_, fun hk => (hk2 hk).trans (hk1 hk)⟩
    rcases hq2 with e2 | e2 | e2
    · rcases hq1 with e1 | e1 | e1
      · exact Or.inl (e2.trans e1)
      · exact Or.inr (Or.inl e1)
      · exact Or.inr (Or.inr (e1.mono h2.direct))
    · exact Or.inr (Or.inl e2)
    · exact Or.inr (Or.inr e2)

/-- a context step that leaves the connection list alone and only appends lines -/
theorem Eff.post (h : Eff cfg k q c X Y) (hd : Y.direct <+: Z.direct) (hq : Y.queued <+: Z.queued)
    (hc : Z.w.conns = Y.w.conns) : Eff cfg k q c X Z := by
  refine h.trans ⟨hd, hq, ?_, ?_⟩
  · intro y hy
    rw [hc] at hy
    exact ⟨y, hy, rfl, fun _ => ⟨rfl, fun _ => rfl⟩⟩
  · intro cn hcn
    exact ⟨cn, by rw [conn?_congr hc]; exact hcn, Or.inl rfl, fun _ => rfl⟩

/-- the flags only grant permissions -/
theorem Eff.weaken {k' q' : Bool} (h : Eff cfg k q c X Y) (hk : k = true → k' = true)
    (hq : q = true → q' = true) : Eff cfg k' q' c X Y := by
  refine ⟨h.direct, h.queued, ?_, ?_⟩
  · intro y hy
    obtain ⟨y0, a, b, r⟩ := h.conns y hy
    refine ⟨y0, a, b, fun hne => ⟨(r hne).1, fun hk' => (r hne).2 ?_⟩⟩
    cases k with
    | false => rfl
    | true => rw [hk rfl] at hk'; cases hk'
  · intro cn hcn
    obtain ⟨cn', a, b, r⟩ := h.self cn hcn
    refine ⟨cn', a, ?_, fun hk' => r ?_⟩
    · rcases b with b | b | b
      · exact Or.inl b
      · exact Or.inr (Or.inl (hq b))
      · exact Or.inr (Or.inr b)
    · cases k with
      | false => rfl
      | true => rw [hk rfl] at hk'; cases hk'

theorem Eff.reply (h : Eff cfg k q c X Y) {cfg' : Cfg} {t : Str} : Eff cfg k q c X (Y.reply cfg' t) :=
  h.post (List.prefix_append _ _) (List.prefix_refl _) rfl

theorem Eff.replySrc (h : Eff cfg k q c X Y) {s t : Str} : Eff cfg k q c X (Y.replySrc s t) :=
  h.post (List.prefix_append _ _) (List.prefix_refl _) rfl

theorem send_queued_prefix (Y : Ctx) (n l : Str) : Y.queued <+: (Y.send n l).queued := by
  unfold Ctx.send; split
  · exact List.prefix_append _ _
  · exact List.prefix_refl _

theorem Eff.send (h : Eff cfg k q c X Y) {n l : Str} : Eff cfg k q c X (Y.send n l) :=
  h.post (by rw [Ctx.send_direct]; exact List.prefix_refl _) (send_queued_prefix Y n l) (Ctx.send_conns ..)

theorem Eff.sendDisplay (h : Eff cfg k q c X Y) {n s t : Str} : Eff cfg k q c X (Y.sendDisplay n s t) :=
  Eff.send h

theorem Eff.panic (h : Eff cfg k q c X Y) {s : String} : Eff cfg k q c X (Y.panic s) :=
  h.post (List.prefix_refl _) (List.prefix_refl _) rfl

theorem Eff.modifyW (h : Eff cfg k q c X Y) {f : World → World} (hf : ∀ w, (f w).conns = w.conns) :
    Eff cfg k q c X (Y.modifyW f) :=
  h.post (List.prefix_refl _) (List.prefix_refl _) (hf _)

theorem Eff.foldl {α : Type} {f : Ctx → α → Ctx} (hf : ∀ Y a, Eff cfg k q c Y (f Y a))
    (h : Eff cfg k q c X Y) (l : List α) : Eff cfg k q c X (l.foldl f Y) := by
  induction l generalizing Y with
  | nil => exact h
  | cons a l ih => exact ih (h.trans (hf Y a))

theorem Eff.sendAll (h : Eff cfg k q c X Y) {ns : List Str} {l : Str} :
    Eff cfg k q c X (Y.sendAll ns l) :=
  Eff.foldl (fun Y _ => Eff.send (Eff.refl Y)) h ns

/-- `setConn` of a record for `c` that keeps `quit` and `killedBy` of the current one -/
theorem Eff.setConn (h : Eff cfg k q c X Y) {cn' : Conn} (hid : cn'.id = c)
    (hq : ∀ cn, Y.w.conn? c = some cn → cn'.quit = cn.quit ∨ q = true)
    (hk : ∀ cn, Y.w.conn? c = some cn → cn'.killedBy = cn.killedBy) :
    Eff cfg k q c X (Y.setConn cn') := by
  refine h.trans ⟨List.prefix_refl _, List.prefix_refl _, ?_, ?_⟩
  · intro y hy
    rcases mem_setConn hy with ⟨hy0, _⟩ | ⟨rfl, y1, hy1, hid1⟩
    · exact ⟨y, hy0, rfl, fun _ => ⟨rfl, fun _ => rfl⟩⟩
    · exact ⟨y1, hy1, hid1, fun hne => absurd hid hne⟩
  · intro cn hcn
    refine ⟨cn', ?_, ?_, fun _ => hk cn hcn⟩
    · show (Y.w.setConn cn').conn? c = some cn'
      rw [conn?_setConn, if_pos hid, hcn]; rfl
    · rcases hq cn hcn with e | e
      · exact Or.inl e
      · exact Or.inr (Or.inl e)

end

/-- the closing tactic for side goals of `Eff.setConn` when the new record is `{ Y.conn c with … }` -/
macro "conn_side" : tactic =>
  `(tactic| (intro _ hcn; first
      | (left; rw [conn_of_conn? hcn]; done)
      | (rw [conn_of_conn? hcn]; done)
      | (right; rfl)))

/-- hook: helper lemmas `Eff Y (helper … Y)` registered with `macro_rules` below -/
syntax "eff_lemma" : tactic
macro_rules | `(tactic| eff_lemma) => `(tactic| fail "no effect lemma applies")

/-- the work-horse: decompose a handler body into context primitives -/
macro "eff_steps" : tactic =>
  `(tactic| repeat' (first
    | with_reducible exact Eff.refl _
    | with_reducible assumption
    | with_reducible apply Eff.reply
    | with_reducible apply Eff.replySrc
    | with_reducible apply Eff.sendDisplay
    | with_reducible apply Eff.send
    | with_reducible apply Eff.sendAll
    | with_reducible apply Eff.panic
    | with_reducible (refine Eff.setConn ?_ (conn_id _ _) (by conn_side) (by conn_side))
    | with_reducible apply Eff.modifyW
    | (intro _ _; try dsimp only)
    | (intro _; first | rfl | (split <;> rfl))
    | eff_lemma
    | with_reducible apply Eff.foldl
    | split))

/-! ### 3. HConn: registration, PING/PONG, OPER, QUIT -/

section
variable {cfg : Cfg} {k q : Bool} {c : Nat} {X Y : Ctx}

theorem eff_sendIsupport {client : Str} : Eff cfg k q c X (sendIsupport cfg client X) := by
  unfold sendIsupport
  eff_steps

theorem eff_processLusers {client : Str} : Eff cfg k q c X (processLusers cfg client X) := by
  unfold processLusers
  dsimp only
  eff_steps

theorem eff_unsupported {client : Str} {s : String} : Eff cfg k q c X (unsupported cfg client s X) := by
  unfold unsupported
  eff_steps

theorem eff_processMotd {client : Str} {t : Option Str} : Eff cfg k q c X (processMotd cfg client t X) := by
  unfold processMotd
  split
  · exact eff_unsupported
  · dsimp only; eff_steps

theorem eff_welcomeBurst {cn : Conn} {um : Str} : Eff cfg k q c X (welcomeBurst cfg cn um X) := by
  unfold welcomeBurst
  dsimp only
  apply Eff.reply
  refine Eff.trans ?_ eff_processMotd
  refine Eff.trans ?_ eff_processLusers
  refine Eff.trans ?_ eff_sendIsupport
  eff_steps

/-- wrong password: `quit` is set, and the 464 reply says so -/
theorem Eff.badPassword (h : Eff cfg k q c X Y) {cn' : Conn} (hid : cn'.id = c)
    (hk : ∀ cn, Y.w.conn? c = some cn → cn'.killedBy = cn.killedBy) {client : Str} :
    Eff cfg k q c X ((Y.setConn cn').reply cfg (Reply.ErrPasswdMismatch464 client)) := by
  refine h.trans ⟨List.prefix_append _ _, List.prefix_refl _, ?_, ?_⟩
  · intro y hy
    rcases mem_setConn hy with ⟨hy0, _⟩ | ⟨rfl, y1, hy1, hid1⟩
    · exact ⟨y, hy0, rfl, fun _ => ⟨rfl, fun _ => rfl⟩⟩
    · exact ⟨y1, hy1, hid1, fun hne => absurd hid hne⟩
  · intro cn hcn
    refine ⟨cn', ?_, Or.inr (Or.inr ⟨client, ?_⟩), fun _ => hk cn hcn⟩
    · show (Y.w.setConn cn').conn? c = some cn'
      rw [conn?_setConn, if_pos hid, hcn]; rfl
    · show _ ∈ Y.direct ++ [_]
      exact List.mem_append_right _ (List.mem_singleton.mpr rfl)

theorem processLusers_conns (client : Str) : (processLusers cfg client X).w.conns = X.w.conns := by
  unfold processLusers
  dsimp only
  split <;> rfl

theorem welcomeBurst_conns (cn : Conn) (um : Str) : (welcomeBurst cfg cn um X).w.conns = X.w.conns := by
  unfold welcomeBurst
  dsimp only
  rw [Ctx.reply_w, Reg.processMotd_w, processLusers_conns, Reg.sendIsupport_w]
  rfl

theorem addUser_conns (w : World) (n : Str) (u : User) : (w.addUser n u).conns = w.conns :=
  Reg.World.addUser_conns w n u

theorem eff_authenticate : Eff cfg k q c X (authenticate cfg c X) := by
  unfold authenticate
  dsimp only
  split
  · exact Eff.refl _
  · exact Eff.reply (Eff.refl _)
  · split
    · split
      · exact Eff.panic (Eff.refl _)
      · split
        · split
          · eff_steps
          · split
            · -- the welcome burst, then the ping waker takes the ping sender
              refine Eff.setConn ?_ (conn_id _ _) ?_ ?_
              · refine Eff.trans ?_ eff_welcomeBurst
                refine Eff.modifyW ?_ (fun w => addUser_conns w _ _)
                eff_steps
              · intro cn hcn
                left
                rw [conn?_congr (welcomeBurst_conns _ _)] at hcn
                rw [Ctx.modifyW_w, conn?_congr (addUser_conns _ _ _), Ctx.setConn_w, conn?_setConn,
                  if_pos (conn_id _ _)] at hcn
                cases hx : X.w.conn? c with
                | none => rw [hx] at hcn; cases hcn
                | some cn0 =>
                  rw [hx] at hcn
                  simp only [Option.map_some, Option.some.injEq] at hcn
                  rw [← hcn]
              · intro cn hcn
                rw [conn?_congr (welcomeBurst_conns _ _)] at hcn
                rw [Ctx.modifyW_w, conn?_congr (addUser_conns _ _ _), Ctx.setConn_w, conn?_setConn,
                  if_pos (conn_id _ _)] at hcn
                cases hx : X.w.conn? c with
                | none => rw [hx] at hcn; cases hcn
                | some cn0 =>
                  rw [hx] at hcn
                  simp only [Option.map_some, Option.some.injEq] at hcn
                  rw [← hcn, conn_of_conn? hx]
            · apply Eff.panic
              refine Eff.trans ?_ eff_welcomeBurst
              refine Eff.modifyW ?_ (fun w => addUser_conns w _ _)
              eff_steps
        · eff_steps
    · refine Eff.badPassword (Eff.refl _) ?_ ?_
      · exact conn_id _ _
      · conn_side

/-- a second `setConn` right after a first one for the same connection -/
theorem Eff.setConn2 (h : Eff cfg k q c X (Y.setConn cn1)) {cn2 : Conn} (hid1 : cn1.id = c)
    (hid2 : cn2.id = c) (hq : cn2.quit = cn1.quit) (hk : cn2.killedBy = cn1.killedBy) :
    Eff cfg k q c X ((Y.setConn cn1).setConn cn2) := by
  have key : ∀ cn, (Y.setConn cn1).w.conn? c = some cn → cn = cn1 := by
    intro cn hcn
    rw [Ctx.setConn_w, conn?_setConn, if_pos hid1] at hcn
    cases hx : Y.w.conn? c with
    | none => rw [hx] at hcn; cases hcn
    | some cn0 =>
      rw [hx] at hcn
      simp only [Option.map_some, Option.some.injEq] at hcn
      exact hcn.symm
  refine Eff.setConn h hid2 ?_ ?_
  · intro cn hcn; rw [key cn hcn]; exact Or.inl hq
  · intro cn hcn; rw [key cn hcn]; exact hk

theorem eff_processCap {sub : CapCommand} {caps : Option (List Str)} :
    Eff cfg k q c X (processCap cfg c sub caps X) := by
  unfold processCap
  dsimp only
  split
  · eff_steps
  · eff_steps
  · split
    · split
      · apply Eff.reply
        refine Eff.setConn2 ?_ (conn_id _ _) ?_ ?_ ?_
        · eff_steps
        · split
          · exact conn_id _ _
          · exact conn_id _ _
        · split <;> rfl
        · split <;> rfl
      · eff_steps
    · eff_steps
  · split
    · refine Eff.trans ?_ eff_authenticate
      eff_steps
    · eff_steps

theorem eff_processAuthenticate : Eff cfg k q c X (processAuthenticate cfg c X) := by
  unfold processAuthenticate
  eff_steps

theorem eff_processPass {p : Str} : Eff cfg k q c X (processPass cfg c p X) := by
  unfold processPass
  dsimp only
  split
  · refine Eff.trans ?_ eff_authenticate
    eff_steps
  · eff_steps

theorem eff_processUser {u r : Str} : Eff cfg k q c X (processUser cfg c u r X) := by
  unfold processUser
  dsimp only
  split
  · refine Eff.trans ?_ eff_authenticate
    refine Eff.setConn (Eff.refl _) ?_ ?_ ?_
    · exact conn_id _ _
    · intro cn hcn; left; rw [conn_of_conn? hcn]; rfl
    · intro cn hcn; rw [conn_of_conn? hcn]; rfl
  · eff_steps

theorem renameInChannels_conns (old new : Str) (chs : List Str) (w : World) :
    (renameInChannels old new chs w).conns = w.conns := by
  unfold renameInChannels
  induction chs generalizing w with
  | nil => rfl
  | cons a l ih =>
    rw [List.foldl_cons, ih]
    split
    · rfl
    · split <;> rfl

theorem eff_processNick {n : Str} {msg : Message} : Eff cfg k q c X (processNick cfg c n msg X) := by
  unfold processNick
  dsimp only
  split
  · split
    · refine Eff.trans ?_ eff_authenticate
      refine Eff.setConn (Eff.refl _) ?_ ?_ ?_
      · exact conn_id _ _
      · intro cn hcn; left; rw [conn_of_conn? hcn]; rfl
      · intro cn hcn; rw [conn_of_conn? hcn]; rfl
    · eff_steps
  · split
    · eff_steps
    · split
      · split
        · split
          · eff_steps
          · apply Eff.sendAll
            refine Eff.modifyW ?_ ?_
            · refine Eff.setConn (Eff.refl _) ?_ ?_ ?_
              · exact conn_id _ _
              · intro cn hcn; left; rw [conn_of_conn? hcn]; rfl
              · intro cn hcn; rw [conn_of_conn? hcn]; rfl
            · intro w
              split <;> exact renameInChannels_conns _ _ _ _
        · eff_steps
      · eff_steps

theorem eff_processPing {t : Str} : Eff cfg k q c X (processPing cfg c t X) := by
  unfold processPing
  eff_steps

theorem eff_processPong : Eff cfg k q c X (processPong cfg c X) := by
  unfold processPong
  eff_steps

theorem eff_processOper {n p : Str} : Eff cfg k q c X (processOper cfg c n p X) := by
  unfold processOper
  dsimp only
  eff_steps

/-- QUIT is the one handler that may set the sender's own `quit` flag without a 464 -/
theorem eff_processQuit : Eff cfg k true c X (processQuit cfg c X) := by
  unfold processQuit
  dsimp only
  eff_steps

/-! ### 4. HChannel -/

theorem eff_namesLines {cn : Conn} {chname : Str} {ch : Channel} {users : Map User} :
    Eff cfg k q c X (namesLines cfg cn chname ch users X) := by
  unfold namesLines
  dsimp only
  eff_steps

theorem eff_sendNamesFromChannel {c' : Nat} {chname : Str} {ch : Channel} {e : Bool} :
    Eff cfg k q c X (sendNamesFromChannel cfg c' chname ch e X) := by
  unfold sendNamesFromChannel
  dsimp only
  repeat' split
  all_goals first
    | exact Eff.refl _
    | exact eff_namesLines
    | exact Eff.reply eff_namesLines

theorem eff_processNames {chs : List Str} : Eff cfg k q c X (processNames cfg c chs X) := by
  unfold processNames
  dsimp only
  split
  · refine Eff.foldl (fun Y a => ?_) (Eff.refl _) _
    split
    · exact eff_sendNamesFromChannel
    · eff_steps
  · apply Eff.reply
    refine Eff.foldl (fun Y a => ?_) (Eff.refl _) _
    exact eff_sendNamesFromChannel

theorem rufc_conns (w : World) (ch n : Str) : (w.removeUserFromChannel ch n).conns = w.conns :=
  (Memb.rufc_frame w ch n).conns

theorem joinApply_conns (nick : Str) (ds : List (Bool × Bool)) (chs : List Str) (w : World) :
    (joinApply nick ds chs w).conns = w.conns := by
  fun_induction joinApply nick ds chs w with
  | case1 join create ds chn chs w w1 ih =>
    rw [ih]
    simp only [w1]
    repeat' split
    all_goals rfl
  | case2 => rfl

theorem eff_joinAnnounce {nick : Str} {ds : List (Bool × Bool)} {chs : List Str} :
    Eff cfg k q c X (joinAnnounce cfg c nick ds chs X) := by
  fun_induction joinAnnounce cfg c nick ds chs X with
  | case1 join x ds chn chs X X1 ih =>
    refine Eff.trans ?_ ih
    simp only [X1]
    split
    · split
      · eff_steps
      · refine Eff.foldl (fun Y a => ?_) ?_ _
        · eff_steps
        · refine Eff.trans ?_ eff_sendNamesFromChannel
          eff_steps
    · exact Eff.refl _
  | case2 => exact Eff.refl _

theorem eff_processJoin {chs : List Str} {keys : Option (List Str)} :
    Eff cfg k q c X (processJoin cfg c chs keys X) := by
  unfold processJoin
  dsimp only
  split
  · eff_steps
  · split
    · eff_steps
    · refine Eff.trans ?_ eff_joinAnnounce
      refine Eff.modifyW ?_ (fun w => joinApply_conns _ _ _ w)
      eff_steps

theorem eff_processPart {chs : List Str} {r : Option Str} :
    Eff cfg k q c X (processPart cfg c chs r X) := by
  unfold processPart
  dsimp only
  eff_steps
  all_goals (intro w; exact rufc_conns w _ _)

end

theorem Eff.then_unsupported {cfg : Cfg} {k q : Bool} {c : Nat} {X Y : Ctx} {client : Str} {s : String} (h : Eff cfg k q c X Y) :
    Eff cfg k q c X (unsupported cfg client s Y) :=
  h.trans eff_unsupported
macro_rules | `(tactic| eff_lemma) => `(tactic| with_reducible apply Eff.then_unsupported)
theorem Eff.then_sendIsupport {cfg : Cfg} {k q : Bool} {c : Nat} {X Y : Ctx} {client : Str} (h : Eff cfg k q c X Y) :
    Eff cfg k q c X (sendIsupport cfg client Y) :=
  h.trans eff_sendIsupport
macro_rules | `(tactic| eff_lemma) => `(tactic| with_reducible apply Eff.then_sendIsupport)
theorem Eff.then_sendNamesFromChannel {cfg : Cfg} {k q : Bool} {c : Nat} {X Y : Ctx} {c' : Nat} {chname : Str} {ch : Channel} {e : Bool} (h : Eff cfg k q c X Y) :
    Eff cfg k q c X (sendNamesFromChannel cfg c' chname ch e Y) :=
  h.trans eff_sendNamesFromChannel
macro_rules | `(tactic| eff_lemma) => `(tactic| with_reducible apply Eff.then_sendNamesFromChannel)

section
variable {cfg : Cfg} {k q : Bool} {c : Nat} {X Y : Ctx}

theorem Eff.foldlP {α β : Type} (proj : β → Ctx) {f : β → α → β}
    (hf : ∀ b a, Eff cfg k q c (proj b) (proj (f b a))) {b : β}
    (h : Eff cfg k q c X (proj b)) (l : List α) : Eff cfg k q c X (proj (l.foldl f b)) := by
  induction l generalizing b with
  | nil => exact h
  | cons a l ih => exact ih (h.trans (hf b a))

theorem eff_processTopic {ch : Str} {t : Option Str} {msg : Message} :
    Eff cfg k q c X (processTopic cfg c ch t msg X) := by
  unfold processTopic
  dsimp only
  eff_steps

theorem eff_processList {chs : List Str} {srv : Option Str} :
    Eff cfg k q c X (processList cfg c chs srv X) := by
  unfold processList listLine
  dsimp only
  eff_steps

theorem eff_processInvite {n ch : Str} {msg : Message} :
    Eff cfg k q c X (processInvite cfg c n ch msg X) := by
  unfold processInvite
  dsimp only
  eff_steps

theorem rufc_foldl_conns (ch : Str) (l : List Str) (w : World) :
    (l.foldl (fun w ku => w.removeUserFromChannel ch ku) w).conns = w.conns := by
  induction l generalizing w with
  | nil => rfl
  | cons a l ih => rw [List.foldl_cons, ih, rufc_conns]

theorem eff_processKick {ch : Str} {us : List Str} {cm : Option Str} :
    Eff cfg k q c X (processKick cfg c ch us cm X) := by
  unfold processKick
  dsimp only
  eff_steps
  all_goals (intro w; exact rufc_foldl_conns _ _ w)

/-! ### 5. HRest -/

theorem eff_privmsgTarget {nick : Str} {notice : Bool} {text target : Str} :
    Eff cfg k q c X (privmsgTarget cfg c nick notice text target X).1 := by
  unfold privmsgTarget
  dsimp only
  repeat' split
  all_goals (try dsimp only)
  all_goals eff_steps

theorem eff_processPrivmsgNotice {ts : List Str} {t : Str} {notice : Bool} :
    Eff cfg k q c X (processPrivmsgNotice cfg c ts t notice X) := by
  unfold processPrivmsgNotice
  split
  · eff_steps
  · rename_i nick _
    have key : ∀ p : Ctx × Bool, Eff cfg k q c X p.1 →
        Eff cfg k q c X ((dedup ts).foldl (fun (x, d) t' =>
          let (x', d') := privmsgTarget cfg c nick notice t t' x
          (x', d || d')) p).1 := by
      intro p hp
      refine Eff.foldlP Prod.fst (fun b a => ?_) hp _
      obtain ⟨x, d⟩ := b
      dsimp only
      have h := eff_privmsgTarget (cfg := cfg) (k := k) (q := q) (c := c) (X := x) (nick := nick)
        (notice := notice) (text := t) (target := a)
      generalize privmsgTarget cfg c nick notice t a x = pt at h ⊢
      obtain ⟨x', d'⟩ := pt
      exact h
    have h0 := key (X, false) (Eff.refl _)
    dsimp only
    generalize (dedup ts).foldl _ (X, false) = r at h0 ⊢
    obtain ⟨x, d⟩ := r
    dsimp only at h0 ⊢
    split
    · exact Eff.panic h0
    · exact h0

theorem eff_sendWhoInfo {cn : Conn} {chn : Option (Str × ChanUserModes)} {n : Str} {u cu : User} :
    Eff cfg k q c X (sendWhoInfo cfg cn chn n u cu X) := by
  unfold sendWhoInfo
  eff_steps

end

theorem Eff.then_sendWhoInfo {cfg : Cfg} {k q : Bool} {c : Nat} {X Y : Ctx} {cn : Conn} {chn : Option (Str × ChanUserModes)} {n : Str} {u cu : User}
    (h : Eff cfg k q c X Y) : Eff cfg k q c X (sendWhoInfo cfg cn chn n u cu Y) :=
  h.trans eff_sendWhoInfo
macro_rules | `(tactic| eff_lemma) => `(tactic| with_reducible apply Eff.then_sendWhoInfo)

section
variable {cfg : Cfg} {k q : Bool} {c : Nat} {X Y : Ctx}

theorem eff_processWho {mask : Str} : Eff cfg k q c X (processWho cfg c mask X) := by
  unfold processWho
  dsimp only
  eff_steps

theorem eff_whoisOne {cn : Conn} {u : User} {n : Str} : Eff cfg k q c X (whoisOne cfg cn u n X) := by
  unfold whoisOne
  dsimp only
  eff_steps

end

theorem Eff.then_whoisOne {cfg : Cfg} {k q : Bool} {c : Nat} {X Y : Ctx} {cn : Conn} {u : User} {n : Str} (h : Eff cfg k q c X Y) :
    Eff cfg k q c X (whoisOne cfg cn u n Y) :=
  h.trans eff_whoisOne
macro_rules | `(tactic| eff_lemma) => `(tactic| with_reducible apply Eff.then_whoisOne)

section
variable {cfg : Cfg} {k q : Bool} {c : Nat} {X Y : Ctx}

theorem eff_processWhois {t : Option Str} {ns : List Str} :
    Eff cfg k q c X (processWhois cfg c t ns X) := by
  unfold processWhois
  dsimp only
  eff_steps

theorem eff_processWhowas {n : Str} {cnt : Option Nat} {srv : Option Str} :
    Eff cfg k q c X (processWhowas cfg c n cnt srv X) := by
  unfold processWhowas
  dsimp only
  eff_steps

theorem eff_processAway {t : Option Str} : Eff cfg k q c X (processAway cfg c t X) := by
  unfold processAway
  dsimp only
  eff_steps

theorem eff_processUserhost {ns : List Str} : Eff cfg k q c X (processUserhost cfg c ns X) := by
  unfold processUserhost
  dsimp only
  eff_steps

theorem eff_processWallops {msg : Message} : Eff cfg k q c X (processWallops cfg c msg X) := by
  unfold processWallops
  dsimp only
  eff_steps

theorem eff_processIson {ns : List Str} : Eff cfg k q c X (processIson cfg c ns X) := by
  unfold processIson
  dsimp only
  eff_steps

/-! ### 6. KILL / DIE / SQUIT: other connections get `killedBy`, nobody's `quit` changes -/

/-- a world transformer that only marks connections as killed -/
def KillLike (f : World → World) : Prop := ∀ w,
  (∀ y, y ∈ (f w).conns → ∃ y0, y0 ∈ w.conns ∧ y0.id = y.id ∧ y0.quit = y.quit) ∧
  (∀ c cn, w.conn? c = some cn → ∃ cn', (f w).conn? c = some cn' ∧ cn'.quit = cn.quit)

theorem fireKill_killLike (killer comment nick : Str) : KillLike (fireKill killer comment nick) := by
  intro w
  have hid : (∀ y, y ∈ w.conns → ∃ y0, y0 ∈ w.conns ∧ y0.id = y.id ∧ y0.quit = y.quit) ∧
      (∀ c cn, w.conn? c = some cn → ∃ cn', w.conn? c = some cn' ∧ cn'.quit = cn.quit) :=
    ⟨fun y hy => ⟨y, hy, rfl, rfl⟩, fun c cn h => ⟨cn, h, rfl⟩⟩
  unfold fireKill
  split
  · exact hid
  · rename_i u _
    dsimp only
    split
    · exact hid
    · split
      · rename_i cn hcn
        have hcn' : w.conn? u.owner = some cn := hcn
        constructor
        · intro y hy
          rcases mem_setConn hy with ⟨hy0, _⟩ | ⟨rfl, _⟩
          · exact ⟨y, hy0, rfl, rfl⟩
          · exact ⟨cn, conn?_mem hcn', rfl, rfl⟩
        · intro c cn0 hc0
          rw [conn?_setConn]
          show ∃ cn', (if cn.id = c then Option.map _ (w.conn? c) else w.conn? c) = some cn' ∧ _
          split
          · rename_i e
            rw [hc0]
            refine ⟨_, rfl, ?_⟩
            have : u.owner = c := (conn?_id hcn').symm.trans e
            rw [this, hc0] at hcn'
            cases hcn'
            rfl
          · exact ⟨cn0, hc0, rfl⟩
      · exact hid

theorem KillLike.foldl (killer comment : Str) (l : List Str) :
    KillLike (fun w => l.foldl (fun w n => fireKill killer comment n w) w) := by
  induction l with
  | nil => intro w; exact ⟨fun y hy => ⟨y, hy, rfl, rfl⟩, fun c cn h => ⟨cn, h, rfl⟩⟩
  | cons a l ih =>
    intro w
    simp only [List.foldl_cons]
    obtain ⟨a1, b1⟩ := fireKill_killLike killer comment a w
    obtain ⟨a2, b2⟩ := ih (fireKill killer comment a w)
    constructor
    · intro y hy
      obtain ⟨y1, hy1, i1, q1⟩ := a2 y hy
      obtain ⟨y0, hy0, i0, q0⟩ := a1 y1 hy1
      exact ⟨y0, hy0, i0.trans i1, q0.trans q1⟩
    · intro c cn hc
      obtain ⟨cn1, hc1, q1⟩ := b1 c cn hc
      obtain ⟨cn2, hc2, q2⟩ := b2 c cn1 hc1
      exact ⟨cn2, hc2, q2.trans q1⟩

theorem Eff.modifyW_kill (h : Eff cfg true q c X Y) {f : World → World} (hf : KillLike f) :
    Eff cfg true q c X (Y.modifyW f) := by
  refine h.trans ⟨List.prefix_refl _, List.prefix_refl _, ?_, ?_⟩
  · intro y hy
    obtain ⟨y0, hy0, hid, hq⟩ := (hf Y.w).1 y hy
    exact ⟨y0, hy0, hid, fun _ => ⟨hq, fun hk => by cases hk⟩⟩
  · intro cn hcn
    obtain ⟨cn', hcn', hq⟩ := (hf Y.w).2 c cn hcn
    exact ⟨cn', hcn', Or.inl hq, fun hk => by cases hk⟩

theorem eff_processKill {n cm : Str} : Eff cfg true q c X (processKill cfg c n cm X) := by
  unfold processKill
  dsimp only
  repeat' split
  all_goals first
    | exact Eff.reply (Eff.refl _)
    | exact Eff.panic (Eff.refl _)
    | exact Eff.modifyW_kill (Eff.refl _) (fireKill_killLike _ _ _)

theorem eff_processDie {m : Option Str} : Eff cfg true q c X (processDie cfg c m X) := by
  unfold processDie
  dsimp only
  repeat' split
  all_goals first
    | exact Eff.reply (Eff.refl _)
    | exact Eff.panic (Eff.refl _)
    | (refine Eff.modifyW_kill (Eff.refl _) ?_
       intro w
       exact KillLike.foldl _ _ (Map.keys w.users) w)

theorem eff_processSquit {srv cm : Str} : Eff cfg true q c X (processSquit cfg c srv cm X) := by
  unfold processSquit
  split
  · exact eff_unsupported
  · exact eff_processDie

/-! ### 7. HQuery -/

theorem eff_processVersion {t : Option Str} : Eff cfg k q c X (processVersion cfg c t X) := by
  unfold processVersion
  dsimp only
  eff_steps

theorem eff_processAdmin {t : Option Str} : Eff cfg k q c X (processAdmin cfg c t X) := by
  unfold processAdmin
  dsimp only
  eff_steps

theorem eff_processTime {t : Option Str} : Eff cfg k q c X (processTime cfg c t X) := by
  unfold processTime
  dsimp only
  eff_steps

theorem eff_processStats {st : Char} {t : Option Str} : Eff cfg k q c X (processStats cfg c st t X) := by
  unfold processStats
  dsimp only
  eff_steps

theorem eff_processLinks {r m : Option Str} : Eff cfg k q c X (processLinks cfg c r m X) := by
  unfold processLinks
  dsimp only
  eff_steps

theorem eff_helpLines {client subject : Str} {i : Nat} {lines : List Str} {total : Nat} :
    Eff cfg k q c X (helpLines cfg client subject i lines total X) := by
  fun_induction helpLines cfg client subject i lines total X with
  | case1 => exact Eff.refl _
  | case2 i line rest total X X1 ih =>
    refine Eff.trans ?_ ih
    simp only [X1]
    eff_steps

theorem eff_processHelp {sub : Option Str} : Eff cfg k q c X (processHelp cfg c sub X) := by
  unfold processHelp
  dsimp only
  split
  · exact eff_helpLines
  · eff_steps

theorem eff_processInfo : Eff cfg k q c X (processInfo cfg c X) := by
  unfold processInfo
  dsimp only
  eff_steps

/-! ### 8. MODE -/

theorem Eff.iteM {p : Prop} [Decidable p] {A B : ModeAcc} (hA : Eff cfg k q c X A.x)
    (hB : Eff cfg k q c X B.x) : Eff cfg k q c X (if p then A else B).x := by
  split <;> assumption

theorem Eff.iteU {p : Prop} [Decidable p] {A B : UModeAcc} (hA : Eff cfg k q c X A.x)
    (hB : Eff cfg k q c X B.x) : Eff cfg k q c X (if p then A else B).x := by
  split <;> assumption

theorem eff_modeChar {cn : Conn} {target : Str} {chum : ChanUserModes} {a : ModeAcc} {m : Char} :
    Eff cfg k q c a.x (modeChar cfg cn target chum a m).x := by
  unfold modeChar
  extract_lets +onlyGivenNames client nick err482 preChecked a1
  have h1 : Eff cfg k q c a.x a1.x := by
    simp only [a1]
    split
    · exact Eff.reply (Eff.refl _)
    · exact Eff.refl _
  clear_value a1
  refine Eff.trans h1 ?_
  dsimp only
  repeat' (first | with_reducible apply Eff.iteM | split)
  all_goals (try dsimp only)
  all_goals eff_steps

theorem eff_modeGroup {cn : Conn} {target : Str} {chum : ChanUserModes} {a : ModeAcc}
    {g : Str × List Str} : Eff cfg k q c a.x (modeGroup cfg cn target chum a g).x := by
  unfold modeGroup
  refine Eff.foldlP ModeAcc.x (f := modeChar cfg cn target chum) (fun b m => eff_modeChar) ?_ _
  exact Eff.refl _

theorem eff_processModeChannel {target : Str} {ch : Channel} {modes : List (Str × List Str)}
    {chum : ChanUserModes} : Eff cfg k q c X (processModeChannel cfg c target ch modes chum X) := by
  unfold processModeChannel
  dsimp only
  have key : Eff cfg k q c X
      (modes.foldl (modeGroup cfg (X.conn c) target chum) { x := X, ch := ch, args := [] }).x := by
    refine Eff.foldlP ModeAcc.x (f := modeGroup cfg (X.conn c) target chum)
      (fun b g => eff_modeGroup) ?_ _
    exact Eff.refl _
  eff_steps

theorem eff_umodeChar {cn : Conn} {nick : Str} {a : UModeAcc} {m : Char} :
    Eff cfg k q c a.x (umodeChar cfg cn nick a m).x := by
  unfold umodeChar
  dsimp only
  repeat' (first | with_reducible apply Eff.iteU | split)
  all_goals (try dsimp only)
  all_goals eff_steps

theorem eff_processModeUser {target : Str} {modes : List (Str × List Str)} :
    Eff cfg k q c X (processModeUser cfg c target modes X) := by
  unfold processModeUser
  dsimp only
  split
  · eff_steps
  · rename_i user _
    have key : Eff cfg k q c X
        (modes.foldl (fun a g =>
          g.1.foldl (umodeChar cfg (X.conn c) target) { a with modeSet := false })
          { x := X, modes := user.modes : UModeAcc }).x := by
      refine Eff.foldlP UModeAcc.x (f := fun (a : UModeAcc) (g : Str × List Str) =>
          g.1.foldl (umodeChar cfg (X.conn c) target) { a with modeSet := false })
        (fun b g => ?_) ?_ _
      · refine Eff.foldlP UModeAcc.x (f := umodeChar cfg (X.conn c) target)
          (fun b m => eff_umodeChar) ?_ _
        exact Eff.refl _
      · exact Eff.refl _
    eff_steps

theorem eff_processMode {target : Str} {modes : List (Str × List Str)} :
    Eff cfg k q c X (processMode cfg c target modes X) := by
  unfold processMode
  dsimp only
  repeat' split
  all_goals first
    | exact eff_processModeChannel
    | exact eff_processModeUser
    | eff_steps

end

/-! ### 9. the dispatcher and `handleLine` -/

/-- the three commands that fire other users' quit signals -/
def mayKill : Command → Bool
  | .KILL .. | .DIE .. | .SQUIT .. => true
  | _ => false

def isQuit : Command → Bool
  | .QUIT => true
  | _ => false

/-- the command a line is parsed to (if it gets that far) -/
def lineCmd (s : Str) : Option Command :=
  match Message.parse s with
  | .ok msg =>
    (match Command.fromMessage msg with
     | .ok cmd => some cmd
     | .error _ => none)
  | .error _ => none

def lineKills (s : Str) : Bool :=
  match lineCmd s with
  | some cmd => mayKill cmd
  | none => false

def lineQuits (s : Str) : Bool :=
  match lineCmd s with
  | some cmd => isQuit cmd
  | none => false

section
variable {cfg : Cfg} {c : Nat} {X : Ctx}

theorem eff_dispatch {msg : Message} {cmd : Command} :
    Eff cfg (mayKill cmd) (isQuit cmd) c X (dispatch cfg c msg cmd X) := by
  cases cmd with
  | CAP sub caps v => exact eff_processCap
  | AUTHENTICATE => exact eff_processAuthenticate
  | PASS p => exact eff_processPass
  | NICK n => exact eff_processNick
  | USER u a b r => exact eff_processUser
  | QUIT => exact eff_processQuit
  | PING t => exact eff_processPing
  | PONG t => exact eff_processPong
  | MOTD t => exact eff_processMotd
  | LUSERS => exact eff_processLusers
  | CONNECT a b d => exact eff_unsupported
  | REHASH => exact eff_unsupported
  | RESTART => exact eff_unsupported
  | NAMES chs => exact eff_processNames
  | LIST chs s => exact eff_processList
  | VERSION t => exact eff_processVersion
  | ADMIN t => exact eff_processAdmin
  | TIME s => exact eff_processTime
  | LINKS r m => exact eff_processLinks
  | HELP s => exact eff_processHelp
  | INFO => exact eff_processInfo
  | WHOWAS n cnt s => exact eff_processWhowas
  | USERHOST ns => exact eff_processUserhost
  | ISON ns => exact eff_processIson
  | OPER n p => exact eff_processOper
  | JOIN chs keys => exact eff_processJoin
  | PART chs r => exact eff_processPart
  | TOPIC ch t => exact eff_processTopic
  | INVITE n ch => exact eff_processInvite
  | KICK ch us cm => exact eff_processKick
  | STATS q s => exact eff_processStats
  | MODE t ms => exact eff_processMode
  | PRIVMSG ts t => exact eff_processPrivmsgNotice
  | NOTICE ts t => exact eff_processPrivmsgNotice
  | WHO m => exact eff_processWho
  | WHOIS t ns => exact eff_processWhois
  | KILL n cm => exact eff_processKill
  | SQUIT s cm => exact eff_processSquit
  | AWAY t => exact eff_processAway
  | WALLOPS t => exact eff_processWallops
  | DIE m => exact eff_processDie

theorem eff_handleLine {s : Str} :
    Eff cfg (lineKills s) (lineQuits s) c X (handleLine cfg c s X) := by
  unfold handleLine lineKills lineQuits lineCmd
  cases hp : Message.parse s with
  | error e =>
    cases e <;> (dsimp only; eff_steps)
  | ok msg =>
    dsimp only
    cases hc : Command.fromMessage msg with
    | error e => dsimp only; eff_steps
    | ok cmd =>
      dsimp only
      split
      · apply Eff.reply
        exact Eff.modifyW (Eff.refl _) (fun _ => rfl)
      · refine Eff.trans ?_ eff_dispatch
        exact Eff.modifyW (Eff.refl _) (fun _ => rfl)

end

/-! ### 10. delivery: the settling phase only appends to the output -/

theorem settleConn_outs_prefix (cfg : Cfg) (acc : World × List (Nat × Str) × List Str) (d : Nat) :
    acc.2.1 <+: (settleConn cfg acc d).2.1 := by
  obtain ⟨w, outs, evs⟩ := acc
  unfold settleConn
  simp only
  cases hc : w.conn? d with
  | none => exact List.prefix_refl _
  | some cn =>
    simp only
    cases hq : cn.quit with
    | true => simp [hq]
    | false =>
      cases hk : cn.killedBy with
      | none => simp [hq]
      | some p => obtain ⟨a, b⟩ := p; simp

theorem settle_outs_prefix (cfg : Cfg) (w : World) (outs : List (Nat × Str)) (evs : List Str) :
    outs <+: (settle cfg w outs evs).2.1 := by
  unfold settle
  have : ∀ (l : List Nat) (acc : World × List (Nat × Str) × List Str),
      acc.2.1 <+: (l.foldl (settleConn cfg) acc).2.1 := by
    intro l
    induction l with
    | nil => intro acc; exact List.prefix_refl _
    | cons d l ih =>
      intro acc
      rw [List.foldl_cons]
      exact (settleConn_outs_prefix cfg acc d).trans (ih _)
  exact this _ (w, outs, evs)

theorem finish_outs_prefix (cfg : Cfg) (c : Nat) (x : Ctx) (evs : List Str) :
    (x.direct.map (fun l => (c, l)) ++ x.queued) <+: (finish cfg c x evs).outs := by
  unfold finish
  exact settle_outs_prefix cfg x.w _ evs

end Irc.C05
