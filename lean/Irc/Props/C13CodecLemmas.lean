/-
  Helper lemmas for `Irc/Props/C13Codec.lean` (framing half of property C13).

  Contents
    0. the chunk-free reference semantics `Spec.cut`, `Spec.framesN`, `Spec.frames`
       (needed by both files, therefore defined here; restated in `C13Codec.lean`)
    1. list facts about `findNl` / `Spec.cut`
    2. the three characterising equations of `Spec.frames`
    3. the decoder invariant `Good` and the one-step lemmas for `decode`
    4. `drain`, `eofLoop`, `runChunks` against `Spec.frames`
    5. UTF-8 encoder and round trip
-/
import Irc.Codec
namespace Irc.C13C
open Irc Irc.Codec

/-! ## 0. Reference semantics on the WHOLE byte stream (no chunks, no `nextIndex`) -/
namespace Spec

/-- cut the stream at its first `\n` (byte 10): the bytes before it, and the bytes after it
    if there is one (`none` = the stream has no `\n`). -/
def cut : List Nat → List Nat × Option (List Nat)
  | [] => ([], none)
  | b :: bs => if b = 10 then ([], some bs) else (b :: (cut bs).1, (cut bs).2)

/-- `n` rounds of: take the segment up to the first `\n`; longer than `max` → `tooLong`, stop;
    otherwise chomp one trailing CR and UTF-8 decode it: a line (continue after the `\n`) or
    `badUtf8` (stop).  A stream without `\n`: `tooLong` if longer than `max`, nothing if
    empty, `bytesRemaining` otherwise. -/
def framesN (max : Nat) : Nat → List Nat → List Frame
  | 0, _ => []
  | n + 1, bytes =>
    match cut bytes with
    | (seg, some rest) =>
      if seg.length > max then [.tooLong]
      else match utf8Decode (chompCr seg) with
        | some s => .line s :: framesN max n rest
        | none => [.badUtf8]
    | (tail, none) =>
      if tail.length > max then [.tooLong]
      else if tail.isEmpty then [] else [.bytesRemaining]

/-- the frames of a complete byte stream (each round consumes at least the `\n`, so
    `length + 1` rounds always suffice: `framesN_fuel`). -/
def frames (max : Nat) (bytes : List Nat) : List Frame := framesN max (bytes.length + 1) bytes

end Spec

/-! ## 1. `findNl` and `cut` -/

theorem findNl_none {b : List Nat} (h : 10 ∉ b) : findNl b = none := by
  induction b with
  | nil => rfl
  | cons x xs ih =>
    simp only [List.mem_cons, not_or] at h
    have hx : x ≠ 10 := fun e => h.1 e.symm
    simp [findNl, hx, ih h.2]

theorem findNl_append_some {seg : List Nat} (rest : List Nat) (h : 10 ∉ seg) :
    findNl (seg ++ 10 :: rest) = some seg.length := by
  induction seg with
  | nil => simp [findNl]
  | cons x xs ih =>
    simp only [List.mem_cons, not_or] at h
    have hx : x ≠ 10 := fun e => h.1 e.symm
    simp [findNl, hx, ih h.2]

/-- a search resumed at `n` (nothing before `n` is a `\n`) finds the same `\n` as a search
    from the start: the `nextIndex` bookkeeping never misses or double-counts one. -/
theorem findNl_resume : ∀ (b : List Nat) (n r : Nat), 10 ∉ b.take n →
    (findNl ((b.take r).drop n)).map (· + n) = findNl (b.take r) := by
  intro b
  induction b with
  | nil => intro n r _; simp [findNl]
  | cons x xs ih =>
    intro n r h
    cases n with
    | zero => simp
    | succ n =>
      cases r with
      | zero => simp [findNl]
      | succ r =>
        simp only [List.take_succ_cons, List.mem_cons, not_or] at h
        have hx : x ≠ 10 := fun e => h.1 e.symm
        have := ih n r h.2
        simp only [List.take_succ_cons, List.drop_succ_cons, findNl, hx, if_false]
        rw [← this]
        cases findNl (List.drop n (List.take r xs)) <;> simp [Nat.add_assoc]

theorem findNl_take_some {seg : List Nat} (rest : List Nat) (h : 10 ∉ seg) {r : Nat}
    (hr : seg.length < r) : findNl ((seg ++ 10 :: rest).take r) = some seg.length := by
  have : (seg ++ 10 :: rest).take r = seg ++ 10 :: rest.take (r - seg.length - 1) := by
    rw [List.take_append]
    have h1 : seg.take r = seg := List.take_of_length_le (by omega)
    obtain ⟨k, hk⟩ : ∃ k, r - seg.length = k + 1 := ⟨r - seg.length - 1, by omega⟩
    rw [h1, hk, List.take_succ_cons]
    simp
  rw [this, findNl_append_some _ h]

/-- first-`\n` decomposition of a list -/
theorem nl_cases (b : List Nat) :
    (∃ seg rest, b = seg ++ 10 :: rest ∧ 10 ∉ seg) ∨ 10 ∉ b := by
  induction b with
  | nil => right; simp
  | cons x xs ih =>
    by_cases hx : x = 10
    · left; exact ⟨[], xs, by simp [hx], by simp⟩
    · rcases ih with ⟨seg, rest, he, hs⟩ | h
      · left
        refine ⟨x :: seg, rest, by simp [he], ?_⟩
        simp only [List.mem_cons, not_or]
        exact ⟨fun e => hx e.symm, hs⟩
      · right
        simp only [List.mem_cons, not_or]
        exact ⟨fun e => hx e.symm, h⟩

/-- the three situations a decoder buffer / a stream can be in (exhaustive) -/
theorem trichotomy (max : Nat) (b : List Nat) :
    (∃ seg rest, b = seg ++ 10 :: rest ∧ 10 ∉ seg ∧ seg.length ≤ max) ∨
    (10 ∉ b.take (max + 1) ∧ b.length > max) ∨
    (10 ∉ b ∧ b.length ≤ max) := by
  rcases nl_cases b with ⟨seg, rest, he, hs⟩ | h
  · by_cases hl : seg.length ≤ max
    · left; exact ⟨seg, rest, he, hs, hl⟩
    · right; left
      subst he
      constructor
      · rw [List.take_append_of_le_length (by omega)]
        exact fun hm => hs (List.mem_of_mem_take hm)
      · simp; omega
  · by_cases hl : b.length ≤ max
    · right; right; exact ⟨h, hl⟩
    · right; left
      exact ⟨fun hm => h (List.mem_of_mem_take hm), by omega⟩

theorem cut_append_some {seg : List Nat} (rest : List Nat) (h : 10 ∉ seg) :
    Spec.cut (seg ++ 10 :: rest) = (seg, some rest) := by
  induction seg with
  | nil => simp [Spec.cut]
  | cons x xs ih =>
    simp only [List.mem_cons, not_or] at h
    have hx : x ≠ 10 := fun e => h.1 e.symm
    simp [Spec.cut, hx, ih h.2]

theorem cut_none {b : List Nat} (h : 10 ∉ b) : Spec.cut b = (b, none) := by
  induction b with
  | nil => rfl
  | cons x xs ih =>
    simp only [List.mem_cons, not_or] at h
    have hx : x ≠ 10 := fun e => h.1 e.symm
    simp [Spec.cut, hx, ih h.2]

/-! ## 2. `Spec.frames`: fuel independence and the characterising equations -/

theorem framesN_fuel (max : Nat) : ∀ (n m : Nat) (bytes : List Nat),
    bytes.length < n → bytes.length < m → Spec.framesN max n bytes = Spec.framesN max m bytes := by
  intro n
  induction n with
  | zero => intro m bytes h; omega
  | succ n ih =>
    intro m bytes hn hm
    cases m with
    | zero => omega
    | succ m =>
      rcases nl_cases bytes with ⟨seg, rest, he, hs⟩ | h
      · subst he
        have hl : rest.length < n := by simp at hn; omega
        have hl' : rest.length < m := by simp at hm; omega
        simp only [Spec.framesN, cut_append_some rest hs]
        rw [ih m rest hl hl']
      · simp only [Spec.framesN, cut_none h]

theorem framesN_succ (max n : Nat) (bytes : List Nat) :
    Spec.framesN max (n + 1) bytes =
      match Spec.cut bytes with
      | (seg, some rest) =>
        if seg.length > max then [.tooLong]
        else match utf8Decode (chompCr seg) with
          | some s => .line s :: Spec.framesN max n rest
          | none => [.badUtf8]
      | (tail, none) =>
        if tail.length > max then [.tooLong]
        else if tail.isEmpty then [] else [.bytesRemaining] := rfl

theorem frames_line (max : Nat) {seg : List Nat} (rest : List Nat) (hs : 10 ∉ seg)
    (hl : seg.length ≤ max) :
    Spec.frames max (seg ++ 10 :: rest) =
      match utf8Decode (chompCr seg) with
      | some s => .line s :: Spec.frames max rest
      | none => [.badUtf8] := by
  have hnl : ¬ seg.length > max := by omega
  rw [Spec.frames, framesN_succ, cut_append_some rest hs]
  simp only [hnl, if_false]
  rw [framesN_fuel max (seg ++ 10 :: rest).length (rest.length + 1) rest (by simp; omega) (by omega)]
  rfl

theorem frames_tooLong (max : Nat) {b : List Nat} (h : 10 ∉ b.take (max + 1))
    (hl : b.length > max) : Spec.frames max b = [.tooLong] := by
  rcases nl_cases b with ⟨seg, rest, he, hs⟩ | hn
  · subst he
    have hsl : seg.length > max := by
      apply Nat.lt_of_not_le
      intro hle
      apply h
      rw [List.take_append, List.take_of_length_le (by omega : seg.length ≤ max + 1)]
      obtain ⟨k, hk⟩ : ∃ k, max + 1 - seg.length = k + 1 := ⟨max - seg.length, by omega⟩
      rw [hk]; simp
    simp only [Spec.frames, Spec.framesN, cut_append_some rest hs, hsl, if_true]
  · simp only [Spec.frames, Spec.framesN, cut_none hn, hl, if_true]

theorem frames_tail (max : Nat) {b : List Nat} (h : 10 ∉ b) (hl : b.length ≤ max) :
    Spec.frames max b = if b.isEmpty then [] else [.bytesRemaining] := by
  have hnl : ¬ b.length > max := by omega
  simp only [Spec.frames, Spec.framesN, cut_none h, hnl, if_false]

/-! ## 3. decoder invariant and single `decode` steps -/

/-- what `codecRun` maintains between calls: not discarding, and everything before
    `nextIndex` has already been searched and contains no `\n`. -/
def Good (s : DecState) : Prop :=
  s.discarding = false ∧ s.nextIndex ≤ s.buf.length ∧ 10 ∉ s.buf.take s.nextIndex

theorem good_init : Good {} := by simp [Good]

theorem good_fresh (b : List Nat) : Good { buf := b, nextIndex := 0, discarding := false } := by
  simp [Good]

theorem good_append {s : DecState} (h : Good s) (ch : List Nat) :
    Good { s with buf := s.buf ++ ch } := by
  obtain ⟨hd, hn, hm⟩ := h
  refine ⟨hd, by simp; omega, ?_⟩
  show 10 ∉ (s.buf ++ ch).take s.nextIndex
  rw [List.take_append_of_le_length hn]; exact hm

theorem take_min_length (b : List Nat) (m : Nat) : b.take (min m b.length) = b.take m := by
  by_cases h : m ≤ b.length
  · rw [Nat.min_eq_left h]
  · rw [Nat.min_eq_right (by omega), List.take_of_length_le (Nat.le_refl _),
      List.take_of_length_le (by omega)]

theorem decode_line (max fuel : Nat) {s : DecState} (hg : Good s) {seg rest : List Nat}
    (he : s.buf = seg ++ 10 :: rest) (hs : 10 ∉ seg) (hl : seg.length ≤ max) :
    decode max (fuel + 1) s =
      ({ buf := rest, nextIndex := 0, discarding := false }, some (mkLine seg)) := by
  obtain ⟨buf, ni, d⟩ := s
  obtain ⟨hd, hn, hm⟩ := hg
  simp only at hd hn hm he
  subst hd
  have hres := findNl_resume buf ni (min (max + 1) buf.length) hm
  rw [take_min_length, he, findNl_take_some rest hs (by omega), ← he] at hres
  cases hoff : findNl ((buf.take (max + 1)).drop ni) with
  | none => rw [hoff] at hres; simp at hres
  | some o =>
    rw [hoff] at hres
    simp only [Option.map_some, Option.some.injEq] at hres
    simp only [decode, take_min_length, hoff, hres]
    subst he
    simp

theorem decode_tooLong (max fuel : Nat) {s : DecState} (hg : Good s)
    (h : 10 ∉ s.buf.take (max + 1)) (hl : s.buf.length > max) :
    (decode max (fuel + 1) s).2 = some .tooLong := by
  obtain ⟨buf, ni, d⟩ := s
  obtain ⟨hd, hn, hm⟩ := hg
  simp only at hd hn hm h hl
  subst hd
  have hres := findNl_resume buf ni (max + 1) hm
  rw [findNl_none h] at hres
  have hoff : findNl ((buf.take (max + 1)).drop ni) = none := by
    cases hh : findNl ((buf.take (max + 1)).drop ni) with
    | none => rfl
    | some o => rw [hh] at hres; simp at hres
  simp only [decode, take_min_length, hoff, hl, if_true]

theorem decode_none (max fuel : Nat) {s : DecState} (hg : Good s)
    (h : 10 ∉ s.buf) (hl : s.buf.length ≤ max) :
    decode max (fuel + 1) s =
      ({ buf := s.buf, nextIndex := s.buf.length, discarding := false }, none) := by
  obtain ⟨buf, ni, d⟩ := s
  obtain ⟨hd, hn, hm⟩ := hg
  simp only at hd hn hm h hl
  subst hd
  have h' : 10 ∉ buf.take (max + 1) := fun hm' => h (List.mem_of_mem_take hm')
  have hres := findNl_resume buf ni (max + 1) hm
  rw [findNl_none h'] at hres
  have hoff : findNl ((buf.take (max + 1)).drop ni) = none := by
    cases hh : findNl ((buf.take (max + 1)).drop ni) with
    | none => rfl
    | some o => rw [hh] at hres; simp at hres
  have hnl : ¬ buf.length > max := by omega
  have hmin : min (max + 1) buf.length = buf.length := Nat.min_eq_right (by omega)
  have hoff' : findNl ((buf.take (min (max + 1) buf.length)).drop ni) = none := by
    rw [take_min_length]; exact hoff
  simp only [decode, hoff', hnl, if_false]
  rw [hmin]

/-! ## 4. `drain`, `eofLoop`, `runChunks` -/

theorem mkLine_eq (seg : List Nat) :
    mkLine seg = match utf8Decode (chompCr seg) with
      | some s => .line s
      | none => .badUtf8 := rfl

/-- `drain` on a good state with enough fuel: on failure the accumulated frames are exactly
    the reference frames of buffer ++ (whatever would have followed); otherwise the state is
    good again and the frames still to come are those of the remaining buffer. -/
theorem drain_spec (max : Nat) (more : List Nat) : ∀ (fuel : Nat) (s : DecState) (acc : List Frame),
    Good s → s.buf.length < fuel →
    ((drain max fuel s acc).2.2 = true →
        (drain max fuel s acc).2.1 = acc ++ Spec.frames max (s.buf ++ more)) ∧
    ((drain max fuel s acc).2.2 = false →
        Good (drain max fuel s acc).1 ∧
        (drain max fuel s acc).2.1 ++ Spec.frames max ((drain max fuel s acc).1.buf ++ more)
          = acc ++ Spec.frames max (s.buf ++ more)) := by
  intro fuel
  induction fuel with
  | zero => intro s acc _ h; omega
  | succ fuel ih =>
    intro s acc hg hf
    rcases trichotomy max s.buf with ⟨seg, rest, he, hs, hl⟩ | ⟨hn, hl⟩ | ⟨hn, hl⟩
    · -- a complete line within the limit
      have hd := decode_line max (s.buf.length + 1) hg he hs hl
      have hfr : Spec.frames max (s.buf ++ more) =
          match utf8Decode (chompCr seg) with
          | some s => .line s :: Spec.frames max (rest ++ more)
          | none => [.badUtf8] := by
        rw [he, List.append_assoc, List.cons_append]
        exact frames_line max (rest ++ more) hs hl
      rw [hfr]
      simp only [drain, hd, mkLine_eq]
      cases hu : utf8Decode (chompCr seg) with
      | none => simp [isErr]
      | some str =>
        have hrl : rest.length < fuel := by
          have : s.buf.length = seg.length + 1 + rest.length := by rw [he]; simp; omega
          omega
        have := ih { buf := rest, nextIndex := 0, discarding := false } (acc ++ [.line str])
          (good_fresh rest) hrl
        simp only [isErr, Bool.false_eq_true, if_false]
        simpa using this
    · -- over-long
      have hd := decode_tooLong max (s.buf.length + 1) hg hn hl
      have hfr : Spec.frames max (s.buf ++ more) = [.tooLong] := by
        apply frames_tooLong
        · rw [List.take_append_of_le_length (by omega)]; exact hn
        · simp; omega
      rw [hfr]
      simp only [drain]
      generalize decode max (s.buf.length + 2) s = r at hd
      obtain ⟨s', f⟩ := r
      simp only at hd
      subst hd
      simp [isErr]
    · -- incomplete, need more data
      have hd := decode_none max (s.buf.length + 1) hg hn hl
      simp only [drain, hd]
      simp [Good, hn]

theorem eofLoop_spec (max : Nat) : ∀ (fuel : Nat) (s : DecState) (acc : List Frame),
    Good s → s.buf.length < fuel →
    runChunks.eofLoop max fuel s acc = acc ++ Spec.frames max s.buf := by
  intro fuel
  induction fuel with
  | zero => intro s acc _ h; omega
  | succ fuel ih =>
    intro s acc hg hf
    rcases trichotomy max s.buf with ⟨seg, rest, he, hs, hl⟩ | ⟨hn, hl⟩ | ⟨hn, hl⟩
    · have hd := decode_line max (s.buf.length + 1) hg he hs hl
      rw [he, frames_line max rest hs hl]
      simp only [runChunks.eofLoop, hd, mkLine_eq]
      cases hu : utf8Decode (chompCr seg) with
      | none => simp [isErr]
      | some str =>
        have hrl : rest.length < fuel := by
          have : s.buf.length = seg.length + 1 + rest.length := by rw [he]; simp; omega
          omega
        have := ih { buf := rest, nextIndex := 0, discarding := false } (acc ++ [.line str])
          (good_fresh rest) hrl
        simp only [isErr, Bool.false_eq_true, if_false]
        simpa using this
    · have hd := decode_tooLong max (s.buf.length + 1) hg hn hl
      rw [frames_tooLong max hn hl]
      simp only [runChunks.eofLoop]
      generalize decode max (s.buf.length + 2) s = r at hd
      obtain ⟨s', f⟩ := r
      simp only at hd
      subst hd
      simp [isErr]
    · have hd := decode_none max (s.buf.length + 1) hg hn hl
      rw [frames_tail max hn hl]
      simp only [runChunks.eofLoop, hd, decodeEofTail]
      cases s.buf <;> simp

/-- the main invariant: from any good state, the driver produces the reference frames of
    (unconsumed buffer ++ all bytes still to be fed). -/
theorem runChunks_spec (max : Nat) : ∀ (chunks : List (List Nat)) (s : DecState) (acc : List Frame),
    Good s → runChunks max chunks s acc = acc ++ Spec.frames max (s.buf ++ chunks.flatten) := by
  intro chunks
  induction chunks with
  | nil =>
    intro s acc hg
    simp only [runChunks, List.flatten_nil, List.append_nil]
    exact eofLoop_spec max _ s acc hg (by omega)
  | cons ch rest ih =>
    intro s acc hg
    have hg1 := good_append hg ch
    have hsp := drain_spec max rest.flatten (s.buf.length + ch.length + 2)
      { s with buf := s.buf ++ ch } acc hg1 (by simp)
    simp only [runChunks]
    generalize drain max (s.buf.length + ch.length + 2) { s with buf := s.buf ++ ch } acc = r at hsp
    obtain ⟨s', acc', failed⟩ := r
    simp only at hsp
    cases failed with
    | true =>
      simp only [if_true]
      rw [hsp.1 rfl]; simp
    | false =>
      simp only [Bool.false_eq_true, if_false]
      obtain ⟨hg', heq⟩ := hsp.2 rfl
      rw [ih s' acc' hg', heq]; simp

/-! ## 5. UTF-8 encoder (standard 1-4 byte encoding) and round trip -/

/-- UTF-8 encoding of one scalar value -/
def encChar (c : Char) : List Nat :=
  let n := c.toNat
  if n < 0x80 then [n]
  else if n < 0x800 then [0xC0 + n / 64, 0x80 + n % 64]
  else if n < 0x10000 then [0xE0 + n / 4096, 0x80 + n / 64 % 64, 0x80 + n % 64]
  else [0xF0 + n / 262144, 0x80 + n / 4096 % 64, 0x80 + n / 64 % 64, 0x80 + n % 64]

def utf8Encode : Str → List Nat
  | [] => []
  | c :: cs => encChar c ++ utf8Encode cs

theorem char_valid (c : Char) : c.toNat < 0xD800 ∨ (0xDFFF < c.toNat ∧ c.toNat < 0x110000) :=
  c.valid

theorem dec1 {b0 : Nat} (r : List Nat) (h : b0 < 0x80) :
    utf8Decode (b0 :: r) = (utf8Decode r).map (Char.ofNat b0 :: ·) := by
  rw [utf8Decode.eq_def]
  simp only [h, if_true]

theorem dec2 {b0 b1 : Nat} (r : List Nat) (h0 : 0xC2 ≤ b0) (h0' : b0 ≤ 0xDF)
    (h1 : 0x80 ≤ b1) (h1' : b1 ≤ 0xBF) :
    utf8Decode (b0 :: b1 :: r) =
      (utf8Decode r).map (Char.ofNat ((b0 - 0xC0) * 64 + (b1 - 0x80)) :: ·) := by
  have a : ¬ b0 < 0x80 := by omega
  rw [utf8Decode.eq_def]
  simp [isCont, a, h0, h0', h1, h1']

theorem dec3 {b0 b1 b2 : Nat} (r : List Nat) (h0 : 0xE0 ≤ b0) (h0' : b0 ≤ 0xEF)
    (h1 : (if b0 = 0xE0 then 0xA0 else 0x80) ≤ b1) (h1' : b1 ≤ (if b0 = 0xED then 0x9F else 0xBF))
    (h2 : 0x80 ≤ b2) (h2' : b2 ≤ 0xBF) :
    utf8Decode (b0 :: b1 :: b2 :: r) =
      (utf8Decode r).map
        (Char.ofNat ((b0 - 0xE0) * 4096 + (b1 - 0x80) * 64 + (b2 - 0x80)) :: ·) := by
  have a : ¬ b0 < 0x80 := by omega
  have b : ¬ (0xC2 ≤ b0 ∧ b0 ≤ 0xDF) := by omega
  rw [utf8Decode.eq_def]
  simp [isCont, a, b, h0, h0', h1, h1', h2, h2']

theorem dec4 {b0 b1 b2 b3 : Nat} (r : List Nat) (h0 : 0xF0 ≤ b0) (h0' : b0 ≤ 0xF4)
    (h1 : (if b0 = 0xF0 then 0x90 else 0x80) ≤ b1) (h1' : b1 ≤ (if b0 = 0xF4 then 0x8F else 0xBF))
    (h2 : 0x80 ≤ b2) (h2' : b2 ≤ 0xBF) (h3 : 0x80 ≤ b3) (h3' : b3 ≤ 0xBF) :
    utf8Decode (b0 :: b1 :: b2 :: b3 :: r) =
      (utf8Decode r).map
        (Char.ofNat ((b0 - 0xF0) * 262144 + (b1 - 0x80) * 4096 + (b2 - 0x80) * 64 + (b3 - 0x80))
          :: ·) := by
  have a : ¬ b0 < 0x80 := by omega
  have b : ¬ (0xC2 ≤ b0 ∧ b0 ≤ 0xDF) := by omega
  have c : ¬ (0xE0 ≤ b0 ∧ b0 ≤ 0xEF) := by omega
  rw [utf8Decode.eq_def]
  simp [isCont, a, b, c, h0, h0', h1, h1', h2, h2', h3, h3']

/-- decoding the encoding of one character gives that character back, whatever follows -/
theorem decode_encChar (c : Char) (r : List Nat) :
    utf8Decode (encChar c ++ r) = (utf8Decode r).map (c :: ·) := by
  have hv := char_valid c
  have hc : Char.ofNat c.toNat = c := Char.ofNat_toNat c
  unfold encChar
  simp only []
  generalize c.toNat = n at hv hc
  by_cases h1 : n < 0x80
  · simp only [h1, if_true, List.cons_append, List.nil_append]
    rw [dec1 r h1, hc]
  · by_cases h2 : n < 0x800
    · simp only [h1, h2, if_true, if_false, List.cons_append, List.nil_append]
      rw [dec2 r (by omega) (by omega) (by omega) (by omega)]
      have : (0xC0 + n / 64 - 0xC0) * 64 + (0x80 + n % 64 - 0x80) = n := by omega
      rw [this, hc]
    · by_cases h3 : n < 0x10000
      · simp only [h1, h2, h3, if_true, if_false, List.cons_append, List.nil_append]
        rw [dec3 r (by omega) (by omega) (by split <;> omega) (by split <;> omega)
          (by omega) (by omega)]
        have : (0xE0 + n / 4096 - 0xE0) * 4096 + (0x80 + n / 64 % 64 - 0x80) * 64 +
            (0x80 + n % 64 - 0x80) = n := by omega
        rw [this, hc]
      · simp only [h1, h2, h3, if_false, List.cons_append, List.nil_append]
        rw [dec4 r (by omega) (by omega) (by split <;> omega) (by split <;> omega)
          (by omega) (by omega) (by omega) (by omega)]
        have : (0xF0 + n / 262144 - 0xF0) * 262144 + (0x80 + n / 4096 % 64 - 0x80) * 4096 +
            (0x80 + n / 64 % 64 - 0x80) * 64 + (0x80 + n % 64 - 0x80) = n := by omega
        rw [this, hc]

theorem utf8Decode_encode (s : Str) : utf8Decode (utf8Encode s) = some s := by
  induction s with
  | nil => rfl
  | cons c cs ih => simp only [utf8Encode, decode_encChar, ih, Option.map_some]

theorem utf8Encode_append (a b : Str) : utf8Encode (a ++ b) = utf8Encode a ++ utf8Encode b := by
  induction a with
  | nil => rfl
  | cons c cs ih => simp [utf8Encode, ih]

/-- every byte of an encoding is < 256 -/
theorem encChar_byte (c : Char) : ∀ b ∈ encChar c, b < 256 := by
  have hv := char_valid c
  intro b hb
  unfold encChar at hb
  simp only [] at hb
  generalize c.toNat = n at hv hb
  split at hb
  · simp at hb; omega
  · split at hb
    · simp at hb; omega
    · split at hb
      · simp at hb; omega
      · simp at hb; omega

/-- a byte below 0x80 occurs in the encoding of `c` only as the encoding of `c` itself -/
theorem encChar_ascii (c : Char) {b : Nat} (hb : b < 0x80) (hm : b ∈ encChar c) :
    c = Char.ofNat b ∧ encChar c = [b] := by
  have hc : Char.ofNat c.toNat = c := Char.ofNat_toNat c
  unfold encChar at hm ⊢
  simp only [] at hm ⊢
  generalize c.toNat = n at hm hc
  split at hm
  · rename_i h
    simp at hm
    subst hm
    simp [hc, h]
  · split at hm
    · simp at hm; omega
    · split at hm
      · simp at hm; omega
      · simp at hm; omega

theorem encChar_ne_nil (c : Char) : encChar c ≠ [] := by
  unfold encChar
  simp only []
  split
  · simp
  · split
    · simp
    · split <;> simp

theorem utf8Encode_no_nl {s : Str} (h : '\n' ∉ s) : 10 ∉ utf8Encode s := by
  induction s with
  | nil => simp [utf8Encode]
  | cons c cs ih =>
    simp only [List.mem_cons, not_or] at h
    simp only [utf8Encode, List.mem_append, not_or]
    refine ⟨fun hm => ?_, ih h.2⟩
    have := (encChar_ascii c (by omega : 10 < 0x80) hm).1
    exact h.1 (by rw [this])

theorem chompCr_cr (l : List Nat) : chompCr (l ++ [13]) = l := by
  simp [chompCr]

theorem chompCr_of_last {l : List Nat} (h : l.getLast? ≠ some 13) : chompCr l = l := by
  unfold chompCr
  split
  · rename_i h'; exact absurd h' h
  · rfl

theorem utf8Encode_last {s : Str} (h : s.getLast? ≠ some '\r') :
    (utf8Encode s).getLast? ≠ some 13 := by
  rcases List.eq_nil_or_concat s with rfl | ⟨t, c, rfl⟩
  · simp [utf8Encode]
  · rw [List.concat_eq_append] at h ⊢
    rw [utf8Encode_append]
    simp only [List.getLast?_concat, ne_eq, Option.some.injEq] at h
    simp only [utf8Encode, List.append_nil]
    rw [List.getLast?_append]
    intro hl
    have hne := encChar_ne_nil c
    cases hg : (encChar c).getLast? with
    | none => simp [List.getLast?_eq_none_iff] at hg; exact hne hg
    | some b =>
      rw [hg] at hl
      simp at hl
      subst hl
      have hm : 13 ∈ encChar c := List.mem_of_getLast? hg
      have := (encChar_ascii c (by omega : 13 < 0x80) hm).1
      exact h (by rw [this])

/-! ## 6. derived facts about `Spec.frames` used by the final theorems -/

theorem frames_line_some (max : Nat) {seg : List Nat} (rest : List Nat) (hs : 10 ∉ seg)
    (hl : seg.length ≤ max) {s : Str} (hu : utf8Decode (chompCr seg) = some s) :
    Spec.frames max (seg ++ 10 :: rest) = .line s :: Spec.frames max rest := by
  rw [frames_line max rest hs hl, hu]

theorem frames_line_none (max : Nat) {seg : List Nat} (rest : List Nat) (hs : 10 ∉ seg)
    (hl : seg.length ≤ max) (hu : utf8Decode (chompCr seg) = none) :
    Spec.frames max (seg ++ 10 :: rest) = [.badUtf8] := by
  rw [frames_line max rest hs hl, hu]

/-- several complete good lines in a row -/
theorem frames_lines (max : Nat) (tail : List Nat) : ∀ (ls : List (List Nat)),
    (∀ l ∈ ls, 10 ∉ l ∧ l.length ≤ max ∧ isErr (mkLine l) = false) →
    Spec.frames max ((ls.map (· ++ [10])).flatten ++ tail) =
      ls.map mkLine ++ Spec.frames max tail := by
  intro ls
  induction ls with
  | nil => intro _; rfl
  | cons l ls ih =>
    intro h
    obtain ⟨hs, hl, he⟩ := h l (by simp)
    have ih' := ih (fun l' hl' => h l' (by simp [hl']))
    simp only [List.map_cons, List.flatten_cons, List.append_assoc, List.cons_append,
      List.nil_append]
    rw [mkLine_eq] at he ⊢
    cases hu : utf8Decode (chompCr l) with
    | none => rw [hu] at he; simp [isErr] at he
    | some s =>
      rw [frames_line_some max _ hs hl hu, ih']

/-- shape of every result: delivered lines, then at most one error frame, which ends the
    stream -/
theorem framesN_shape (max : Nat) : ∀ (n : Nat) (bytes : List Nat),
    ∃ (ss : List Str) (e : List Frame), Spec.framesN max n bytes = ss.map .line ++ e ∧
      (e = [] ∨ e = [.tooLong] ∨ e = [.badUtf8] ∨ e = [.bytesRemaining]) := by
  intro n
  induction n with
  | zero => intro _; exact ⟨[], [], rfl, Or.inl rfl⟩
  | succ n ih =>
    intro bytes
    rw [framesN_succ]
    rcases hc : Spec.cut bytes with ⟨seg, _ | rest⟩
    · simp only []
      split
      · exact ⟨[], _, rfl, by simp⟩
      · split
        · exact ⟨[], _, rfl, by simp⟩
        · exact ⟨[], _, rfl, by simp⟩
    · simp only []
      split
      · exact ⟨[], _, rfl, by simp⟩
      · cases utf8Decode (chompCr seg) with
        | none => exact ⟨[], _, rfl, by simp⟩
        | some s =>
          obtain ⟨ss, e, h1, h2⟩ := ih rest
          exact ⟨s :: ss, e, by simp [h1], h2⟩

end Irc.C13C

