/-
  Helper definitions and lemmas for `Irc/Props/C04Announce.lean` (the ANNOUNCEMENT half of C04):
  what JOIN / PART / KICK / NICK push to whom, and the client-side roster reconstruction.

  Imports `C07` (JOIN) and `C09` (KICK).  `C15` (NICK) cannot be imported together with `C09`
  (`Irc.ownerOf` is defined both in `ChanPrivLemmas` and in `IdentLemmas`), so the few facts about the
  NICK announcement are re-proved here from `Reg.processNick_rename_eq / _w` (Irc/InvProofs/Registration).
-/
import Irc.Props.C04
import Irc.Props.C07
import Irc.Props.C09

namespace Irc.C04A
open Irc Reply Memb

/-! ## 0. vocabulary -/

/-- the member list of channel `ch` in the order of the channel's member map (`[]` if there is no such
    channel) -/
def members (w : World) (ch : Str) : List Str :=
  match Map.lookup ch w.channels with
  | some C => Map.keys C.users
  | none => []

theorem members_of_lookup {w : World} {ch : Str} {C : Channel} (h : Map.lookup ch w.channels = some C) :
    members w ch = Map.keys C.users := by
  unfold members; rw [h]

theorem members_of_none {w : World} {ch : Str} (h : Map.lookup ch w.channels = none) :
    members w ch = [] := by
  unfold members; rw [h]

theorem members_congr {w w' : World} {ch : Str}
    (h : Map.lookup ch w'.channels = Map.lookup ch w.channels) : members w' ch = members w ch := by
  unfold members; rw [h]

theorem mem_members_iff (w : World) (ch m : Str) : m ∈ members w ch ↔ w.memOf ch m = true := by
  unfold members World.memOf
  cases Map.lookup ch w.channels with
  | none => simp
  | some C => simp only [Map.mem_keys_iff, Map.contains_iff]

theorem members_nodup {w : World} (h : InvCore w) (ch : Str) : (members w ch).Nodup := by
  unfold members
  cases hC : Map.lookup ch w.channels with
  | none => exact List.nodup_nil
  | some C => exact h.membersNodup ch C hC

theorem members_are_users {w : World} (h : MemInv w) {ch m : Str} (hm : m ∈ members w ch) :
    Map.contains m w.users = true :=
  h.memberIsUser ch m ((mem_members_iff w ch m).mp hm)

/-- the owner is part of what a `Frame` keeps -/
theorem ownerOf_frame {w w' : World} (f : Frame w w') (n : Str) : ownerOf w' n = ownerOf w n := by
  unfold ownerOf
  have h1 := ucore_lookup n w'.users
  rw [f.ucore, ucore_lookup] at h1
  cases h2 : Map.lookup n w'.users <;> cases h3 : Map.lookup n w.users <;> rw [h2, h3] at h1 <;>
    simp at h1 ⊢
  exact h1.2.1.symm

theorem ownerOf_of_lookup {w : World} {n : Str} {u : User} (h : Map.lookup n w.users = some u) :
    ownerOf w n = u.owner := by
  simp [ownerOf, h]

theorem ownerOf_users_eq (w : World) (n : Str) : C07.ownerOf w.users n = ownerOf w n := by
  unfold C07.ownerOf ownerOf
  cases Map.lookup n w.users <;> rfl

/-- two different nicknames are never owned by the same connection -/
theorem owner_inj {w : World} (h : InvCore w) {m n : Str} {u v : User}
    (hu : Map.lookup m w.users = some u) (hv : Map.lookup n w.users = some v)
    (ho : u.owner = v.owner) : m = n := by
  obtain ⟨c1, hc1, hid1, _, hn1⟩ := h.userOwned m u hu
  obtain ⟨c2, hc2, hid2, _, hn2⟩ := h.userOwned n v hv
  have hid : c1.id = c2.id := by rw [hid1, hid2, ho]
  have : c1 = c2 := by
    have hnd := h.connsNodup
    clear hn1 hn2 hid1 hid2
    generalize w.conns = l at hc1 hc2 hnd
    induction l with
    | nil => cases hc1
    | cons a l ih =>
      simp only [List.map_cons, List.nodup_cons, List.mem_map, not_exists, not_and] at hnd
      rcases List.mem_cons.mp hc1 with rfl | h1 <;> rcases List.mem_cons.mp hc2 with rfl | h2
      · rfl
      · exact absurd hid.symm (hnd.1 c2 h2)
      · exact absurd hid (hnd.1 c1 h1)
      · exact ih h1 h2 hnd.2
  subst this
  rw [hn1] at hn2
  cases hn2; rfl

theorem ownerOf_inj {w : World} (h : InvCore w) {m n : Str}
    (hm : Map.contains m w.users = true) (hn : Map.contains n w.users = true)
    (ho : ownerOf w m = ownerOf w n) : m = n := by
  obtain ⟨u, hu⟩ := (Map.contains_iff _ _).mp hm
  obtain ⟨v, hv⟩ := (Map.contains_iff _ _).mp hn
  rw [ownerOf_of_lookup hu, ownerOf_of_lookup hv] at ho
  exact owner_inj h hu hv ho

/-! ### the lines -/

/-- the PART line as the clients see it: `:<source> PART <channel>[ :<reason>]` -/
def partLine (src ch : Str) (reason : Option Str) : Str :=
  str ":" ++ src ++ str " PART " ++ ch ++
    (match reason with
     | some r => str " :" ++ r
     | none => [])

/-- the KICK line: `:<source> KICK <channel> <victim> :<comment or "Kicked">` -/
def kickLine (src ch v : Str) (comment : Option Str) : Str :=
  str ":" ++ src ++ str " KICK " ++ ch ++ str " " ++ v ++ str " :" ++ comment.getD (str "Kicked")

/-- the canonical NICK line: `:<old source> NICK <new>` -/
def nickLine (src new : Str) : Str := str ":" ++ src ++ str " NICK " ++ new

theorem partLine_eq (src ch : Str) (reason : Option Str) :
    partLine src ch reason = ':' :: (src ++ ' ' :: (match reason with
      | some r => str "PART " ++ ch ++ str " :" ++ r
      | none => str "PART " ++ ch)) := by
  cases reason <;> simp [partLine, str]

theorem partLine_inj (src : Str) (reason : Option Str) {ch ch' : Str}
    (h : partLine src ch reason = partLine src ch' reason) : ch = ch' := by
  unfold partLine at h
  simp only [List.append_assoc] at h
  have h1 := List.append_cancel_left h
  have h2 := List.append_cancel_left h1
  have h3 := List.append_cancel_left h2
  exact List.append_cancel_right h3

/-! ## 1. PART -/

/-- what one PART command of user `n` queues, computed from the world BEFORE the command:
    for every listed channel of which `n` is a member and which was not listed earlier in the same
    command (`seen`), one entry per member (the parting user included), in member order. -/
def partQueue {β : Type} (w : World) (n : Str) (line : Str → β) : List Str → List Str → List (Nat × β)
  | _, [] => []
  | seen, ch :: rest =>
    (if n ∈ members w ch ∧ ch ∉ seen then (members w ch).map (fun m => (ownerOf w m, line ch)) else []) ++
      partQueue w n line (ch :: seen) rest

theorem partStep_queued (cfg : Cfg) (cn : Conn) (n : Str) (reason : Option Str) (x : Ctx) (chn : Str)
    (h : MemInv x.w) :
    (partStep cfg cn n reason x chn).queued = x.queued ++
      (if n ∈ members x.w chn then
        (members x.w chn).map (fun m => (ownerOf x.w m, partLine cn.source chn reason)) else []) := by
  unfold partStep
  cases hC : Map.lookup chn x.w.channels with
  | none => simp [members_of_none hC]
  | some C =>
    dsimp only
    rw [members_of_lookup hC]
    cases hm : Map.contains n C.users with
    | false =>
      have : n ∉ Map.keys C.users := fun hk => by
        rw [Map.contains_of_mem_keys hk] at hm; cases hm
      simp [this]
    | true =>
      have hk : n ∈ Map.keys C.users := Map.mem_keys_of_contains hm
      simp only [↓reduceIte, Ctx.modifyW_queued, hk]
      rw [Ctx.sendDisplayAll_known _ _ _ _ (fun m hm' => h.keys_are_users hC m hm'), partLine_eq]
      cases reason <;> rfl

theorem partStep_direct (cfg : Cfg) (cn : Conn) (n : Str) (reason : Option Str) (x : Ctx) (chn : Str)
    (h : MemInv x.w) :
    (partStep cfg cn n reason x chn).direct = x.direct ++
      (if n ∈ members x.w chn then []
       else [srvLine cfg (if Map.contains chn x.w.channels then ErrNotOnChannel442 cn.clientName chn
                             else ErrNoSuchChannel403 cn.clientName chn)]) := by
  unfold partStep
  cases hC : Map.lookup chn x.w.channels with
  | none => simp [members_of_none hC, Map.contains, hC, srvLine, str]
  | some C =>
    dsimp only
    rw [members_of_lookup hC]
    cases hm : Map.contains n C.users with
    | false =>
      have : n ∉ Map.keys C.users := fun hk => by
        rw [Map.contains_of_mem_keys hk] at hm; cases hm
      simp [this, Map.contains, hC, srvLine, str]
    | true =>
      have hk : n ∈ Map.keys C.users := Map.mem_keys_of_contains hm
      simp only [↓reduceIte, Ctx.modifyW_direct, hk, List.append_nil]
      rw [Ctx.sendDisplayAll_known _ _ _ _ (fun m hm' => h.keys_are_users hC m hm')]

theorem partQueue_seen_congr {β : Type} (w : World) (n : Str) (line : Str → β) :
    ∀ (rest s1 s2 : List Str), (∀ k, k ∈ s1 ↔ k ∈ s2) →
      partQueue w n line s1 rest = partQueue w n line s2 rest := by
  intro rest
  induction rest with
  | nil => intros; rfl
  | cons a rest ih =>
    intro s1 s2 hs
    simp only [partQueue]
    rw [ih (a :: s1) (a :: s2) (fun k => by simp [hs k])]
    simp only [hs a]

/-- the queue specification does not notice that `n` has meanwhile left the channel `chn`, provided
    `chn` counts as seen -/
theorem partQueue_after_step {β : Type} (w w' : World) (n : Str) (line : Str → β) (chn : Str)
    (hother : ∀ ch, ch ≠ chn → members w' ch = members w ch)
    (hgone : n ∉ members w' chn) (hown : ∀ m, ownerOf w' m = ownerOf w m) :
    ∀ (rest seen : List Str), partQueue w' n line seen rest = partQueue w n line (chn :: seen) rest := by
  intro rest
  induction rest with
  | nil => intro seen; rfl
  | cons ch rest ih =>
    intro seen
    simp only [partQueue]
    by_cases e : ch = chn
    · subst e
      rw [ih (ch :: seen)]
      simp only [hgone, false_and, ↓reduceIte, List.mem_cons, true_or, not_true_eq_false, and_false,
        List.nil_append]
    · rw [hother ch e, ih (ch :: seen)]
      simp only [hown, List.mem_cons, e, false_or]
      congr 1
      exact partQueue_seen_congr w n line rest _ _ (fun k => by
        simp only [List.mem_cons]; exact or_left_comm)

theorem partStep_members_other (cfg : Cfg) (cn : Conn) (n : Str) (reason : Option Str) (x : Ctx)
    (chn : Str) (h : MemInv x.w) {ch : Str} (hne : ch ≠ chn) :
    Map.lookup ch (partStep cfg cn n reason x chn).w.channels = Map.lookup ch x.w.channels := by
  rw [partStep_w cfg cn n reason x chn h]
  split
  · exact rufc_lookup_ne _ _ hne
  · rfl

theorem part_fold_queued (cfg : Cfg) (cn : Conn) (n : Str) (reason : Option Str) (channels : List Str)
    (x : Ctx) (h : MemInv x.w) :
    (channels.foldl (partStep cfg cn n reason) x).queued = x.queued ++
      partQueue x.w n (fun ch => partLine cn.source ch reason) [] channels := by
  induction channels generalizing x with
  | nil => simp [partQueue]
  | cons chn rest ih =>
    simp only [List.foldl_cons]
    obtain ⟨h1, f1, e1⟩ := partStep_inv cfg cn n reason x chn h
    rw [ih _ h1, partStep_queued cfg cn n reason x chn h]
    rw [partQueue_after_step x.w (partStep cfg cn n reason x chn).w n _ chn
      (fun ch hne => members_congr (partStep_members_other cfg cn n reason x chn h hne))
      (by rw [mem_members_iff, e1]; simp)
      (fun m => ownerOf_frame f1 m) rest []]
    simp only [partQueue, List.not_mem_nil, not_false_eq_true, and_true, List.append_assoc]

theorem processPart_queued {cfg : Cfg} {c : Nat} {channels : List Str} {reason : Option Str} {x : Ctx}
    {n : Str} (h : InvCore x.w) (hn : (x.conn c).nick = some n) :
    (processPart cfg c channels reason x).queued = x.queued ++
      partQueue x.w n (fun ch => partLine (x.conn c).source ch reason) [] channels := by
  rw [processPart_eq, hn]
  dsimp only
  have := part_fold_queued cfg (x.conn c) n reason channels x (InvCore.memInv h)
  split
  · exact this
  · exact this

/-! ### PART: who gets a line, and how often -/

theorem mem_partQueue_iff {β : Type} (w : World) (n : Str) (line : Str → β) (o : Nat) (l : β) :
    ∀ (chs seen : List Str), (o, l) ∈ partQueue w n line seen chs ↔
      ∃ ch, ch ∈ chs ∧ ch ∉ seen ∧ n ∈ members w ch ∧ l = line ch ∧
        ∃ m, m ∈ members w ch ∧ ownerOf w m = o := by
  intro chs
  induction chs with
  | nil => intro seen; simp [partQueue]
  | cons a rest ih =>
    intro seen
    simp only [partQueue, List.mem_append, ih (a :: seen)]
    constructor
    · rintro (hh | ⟨ch, h1, h2, h3, h4, h5⟩)
      · split at hh
        · rename_i hc
          obtain ⟨m, hm, he⟩ := List.mem_map.mp hh
          cases he
          exact ⟨a, List.mem_cons_self, hc.2, hc.1, rfl, m, hm, rfl⟩
        · cases hh
      · exact ⟨ch, List.mem_cons_of_mem _ h1, fun hs => h2 (List.mem_cons_of_mem _ hs), h3, h4, h5⟩
    · rintro ⟨ch, h1, h2, h3, h4, m, hm, ho⟩
      by_cases e : ch = a
      · subst e
        left
        rw [if_pos ⟨h3, h2⟩]
        exact List.mem_map.mpr ⟨m, hm, by rw [ho, h4]⟩
      · right
        rcases List.mem_cons.mp h1 with h1 | h1
        · exact absurd h1 e
        · exact ⟨ch, h1, fun hs => (List.mem_cons.mp hs).elim e h2, h3, h4, m, hm, ho⟩

theorem count_map_of_inj_on {α β : Type} [BEq β] [LawfulBEq β] (f : α → β) :
    ∀ (l : List α) (a : α), l.Nodup → (∀ b, b ∈ l → f b = f a → b = a) → a ∈ l →
      List.count (f a) (l.map f) = 1 := by
  intro l
  induction l with
  | nil => intro a _ _ ha; cases ha
  | cons b l ih =>
    intro a hnd hinj ha
    rw [List.map_cons, List.count_cons]
    obtain ⟨hb, hnd'⟩ := List.nodup_cons.mp hnd
    by_cases e : b = a
    · subst e
      have : List.count (f b) (l.map f) = 0 := by
        rw [List.count_eq_zero]
        intro hm
        obtain ⟨b', hb', he⟩ := List.mem_map.mp hm
        have := hinj b' (List.mem_cons_of_mem _ hb') he
        subst this
        exact hb hb'
      simp [this]
    · have ha' : a ∈ l := (List.mem_cons.mp ha).elim (fun h => absurd h.symm e) id
      have hne : ¬ f b = f a := fun he => e (hinj b List.mem_cons_self he)
      rw [ih a hnd' (fun b' hb' => hinj b' (List.mem_cons_of_mem _ hb')) ha']
      simp [hne]

/-- every member of a listed channel the user is on gets the line of that channel EXACTLY once -
    also when the channel is listed several times -/
theorem count_partQueue {β : Type} [BEq β] [LawfulBEq β] {w : World} (h : InvCore w) (n : Str) (line : Str → β)
    (hinj : ∀ a b, line a = line b → a = b) {ch m : Str} (hn : n ∈ members w ch)
    (hm : m ∈ members w ch) :
    ∀ (chs seen : List Str), List.count (ownerOf w m, line ch) (partQueue w n line seen chs) =
      if ch ∈ chs ∧ ch ∉ seen then 1 else 0 := by
  intro chs
  induction chs with
  | nil => intro seen; simp [partQueue]
  | cons a rest ih =>
    intro seen
    simp only [partQueue, List.count_append, ih (a :: seen)]
    by_cases e : a = ch
    · subst e
      by_cases hs : a ∈ seen
      · simp [hs]
      · rw [if_pos ⟨hn, hs⟩]
        have h1 : List.count (ownerOf w m, line a)
            ((members w a).map (fun m' => (ownerOf w m', line a))) = 1 := by
          apply count_map_of_inj_on (fun m' => (ownerOf w m', line a)) _ m (members_nodup h a) _ hm
          intro b hb he
          simp only [Prod.mk.injEq, and_true] at he
          exact ownerOf_inj h (members_are_users (InvCore.memInv h) hb)
            (members_are_users (InvCore.memInv h) hm) he
        rw [h1]
        simp [hs]
    · have h0 : List.count (ownerOf w m, line ch)
          (if n ∈ members w a ∧ a ∉ seen then
            (members w a).map (fun m' => (ownerOf w m', line a)) else []) = 0 := by
        rw [List.count_eq_zero]
        intro hmem
        split at hmem
        · obtain ⟨b, _, he⟩ := List.mem_map.mp hmem
          simp only [Prod.mk.injEq] at he
          exact e (hinj _ _ he.2)
        · cases hmem
      rw [h0]
      have e' : ¬ ch = a := fun x => e x.symm
      simp [e']

/-! ### PART: the replies to the sender -/

/-- does channel `ch` still exist once `n` has left it?  (an emptied ad-hoc channel is deleted) -/
def survives (w : World) (ch n : Str) : Bool :=
  match Map.lookup ch w.channels with
  | some C => !((Map.erase n C.users).isEmpty && !C.preconfigured)
  | none => false

/-- what one PART command writes back to the sender, computed from the world before the command: no
    line for a channel that is announced; otherwise 442 if the channel exists at that moment (also: if it
    still exists after the user left it earlier in the same command), 403 if not -/
def partReplies (w : World) (n client : Str) : List Str → List Str → List Str
  | _, [] => []
  | seen, ch :: rest =>
    (if n ∈ members w ch ∧ ch ∉ seen then []
     else [if (if n ∈ members w ch then survives w ch n else Map.contains ch w.channels) = true
           then ErrNotOnChannel442 client ch else ErrNoSuchChannel403 client ch]) ++
      partReplies w n client (ch :: seen) rest

theorem partReplies_seen_congr (w : World) (n client : Str) :
    ∀ (rest s1 s2 : List Str), (∀ k, k ∈ s1 ↔ k ∈ s2) →
      partReplies w n client s1 rest = partReplies w n client s2 rest := by
  intro rest
  induction rest with
  | nil => intros; rfl
  | cons a rest ih =>
    intro s1 s2 hs
    simp only [partReplies]
    rw [ih (a :: s1) (a :: s2) (fun k => by simp [hs k])]
    simp only [hs a]

theorem partReplies_after_step (w w' : World) (n client : Str) (chn : Str)
    (hother : ∀ ch, ch ≠ chn → Map.lookup ch w'.channels = Map.lookup ch w.channels)
    (hgone : n ∉ members w' chn)
    (hsurv : Map.contains chn w'.channels =
      if n ∈ members w chn then survives w chn n else Map.contains chn w.channels) :
    ∀ (rest seen : List Str),
      partReplies w' n client seen rest = partReplies w n client (chn :: seen) rest := by
  intro rest
  induction rest with
  | nil => intro seen; rfl
  | cons ch rest ih =>
    intro seen
    simp only [partReplies]
    by_cases e : ch = chn
    · subst e
      rw [ih (ch :: seen)]
      simp only [hgone, false_and, ↓reduceIte, List.mem_cons, true_or, not_true_eq_false, and_false, hsurv]
    · rw [members_congr (hother ch e), ih (ch :: seen)]
      have h1 : survives w' ch n = survives w ch n := by unfold survives; rw [hother ch e]
      have h2 : Map.contains ch w'.channels = Map.contains ch w.channels := by
        unfold Map.contains; rw [hother ch e]
      simp only [h1, h2, List.mem_cons, e, false_or]
      congr 1
      exact partReplies_seen_congr w n client rest _ _ (fun k => by
        simp only [List.mem_cons]; exact or_left_comm)

theorem partStep_contains (cfg : Cfg) (cn : Conn) (n : Str) (reason : Option Str) (x : Ctx) (chn : Str)
    (h : MemInv x.w) :
    Map.contains chn (partStep cfg cn n reason x chn).w.channels =
      if n ∈ members x.w chn then survives x.w chn n else Map.contains chn x.w.channels := by
  rw [partStep_w cfg cn n reason x chn h]
  simp only [mem_members_iff]
  by_cases hm : x.w.memOf chn n = true
  · rw [if_pos hm, if_pos hm]
    obtain ⟨C, hC, hc⟩ := (World.memOf_iff _ _ _).mp hm
    rw [(rufc_channels_member hC hc).1]
    unfold survives
    rw [hC]
    dsimp only
    by_cases hh : ((Channel.without C n).users.isEmpty && !(Channel.without C n).preconfigured) = true
    · rw [if_pos hh]
      have hh' : ((Map.erase n C.users).isEmpty && !C.preconfigured) = true := hh
      rw [hh']
      simp [Map.contains]
    · rw [if_neg hh]
      have hh' : ((Map.erase n C.users).isEmpty && !C.preconfigured) = false := by
        cases hq : ((Map.erase n C.users).isEmpty && !C.preconfigured)
        · rfl
        · exact absurd hq hh
      rw [hh']
      simp [Map.contains]
  · rw [if_neg hm, if_neg hm]

theorem part_fold_direct (cfg : Cfg) (cn : Conn) (n : Str) (reason : Option Str) (channels : List Str)
    (x : Ctx) (h : MemInv x.w) :
    (channels.foldl (partStep cfg cn n reason) x).direct = x.direct ++
      (partReplies x.w n cn.clientName [] channels).map (srvLine cfg) := by
  induction channels generalizing x with
  | nil => simp [partReplies]
  | cons chn rest ih =>
    simp only [List.foldl_cons]
    obtain ⟨h1, f1, e1⟩ := partStep_inv cfg cn n reason x chn h
    rw [ih _ h1, partStep_direct cfg cn n reason x chn h]
    rw [partReplies_after_step x.w (partStep cfg cn n reason x chn).w n _ chn
      (fun ch hne => partStep_members_other cfg cn n reason x chn h hne)
      (by rw [mem_members_iff, e1]; simp)
      (partStep_contains cfg cn n reason x chn h) rest []]
    simp only [partReplies, List.not_mem_nil, not_false_eq_true, and_true, List.append_assoc,
      List.map_append]
    congr 1
    by_cases hm : n ∈ members x.w chn
    · simp [hm]
    · simp [hm]

theorem processPart_direct {cfg : Cfg} {c : Nat} {channels : List Str} {reason : Option Str} {x : Ctx}
    {n : Str} (h : InvCore x.w) (hn : (x.conn c).nick = some n) :
    (processPart cfg c channels reason x).direct = x.direct ++
      (partReplies x.w n (x.conn c).clientName [] channels).map (srvLine cfg) := by
  rw [processPart_eq, hn]
  dsimp only
  have := part_fold_direct cfg (x.conn c) n reason channels x (InvCore.memInv h)
  split
  · exact this
  · exact this

/-! ## 2. JOIN -/

/-- the listed channels of a JOIN whose decision is positive, in list order (a channel that is accepted
    twice occurs twice) -/
def accepted (ds : List (Bool × Bool)) (chs : List Str) : List Str :=
  ((ds.zip chs).filter (fun p => p.1.1)).map (·.2)

theorem accepted_cons (j cr : Bool) (ds : List (Bool × Bool)) (chn : Str) (chs : List Str) :
    accepted ((j, cr) :: ds) (chn :: chs) = if j then chn :: accepted ds chs else accepted ds chs := by
  cases j <;> simp [accepted]

theorem mem_accepted_iff (ds : List (Bool × Bool)) (chs : List Str) (ch : Str) :
    ch ∈ accepted ds chs ↔ joined ds chs ch = true := by
  simp only [accepted, joined, List.mem_map, List.mem_filter, List.any_eq_true, Bool.and_eq_true,
    decide_eq_true_eq]
  constructor
  · rintro ⟨p, ⟨h1, h2⟩, h3⟩; exact ⟨p, h1, h2, h3⟩
  · rintro ⟨p, h1, h2, h3⟩; exact ⟨p, ⟨h1, h2⟩, h3⟩

/-- what the announcement loop of JOIN queues: for every accepted channel, one line to every member
    of the channel OTHER than the joiner -/
def joinQueue {β : Type} (w : World) (n : Str) (line : Str → β) (acc : List Str) : List (Nat × β) :=
  acc.flatMap (fun ch => ((members w ch).filter (· != n)).map (fun m => (ownerOf w m, line ch)))

/-- what the joiner itself is sent for the accepted channel `ch`: the JOIN line, the topic (332) if one
    is set, and the NAMES reply of the channel -/
def joinBurst (cfg : Cfg) (c : Nat) (w : World) (ch : Str) : List Str :=
  match Map.lookup ch w.channels with
  | some C =>
    C07.joinLine (({ w := w } : Ctx).conn c).source ch ::
      ((match C.topic with
        | some t => [srvLine cfg (RplTopic332 (({ w := w } : Ctx).conn c).clientName ch t.topic)]
        | none => []) ++
       (sendNamesFromChannel cfg c ch C true { w := w }).direct)
  | none => []

theorem joinAnnounce_eq (cfg : Cfg) (c : Nat) (nick : Str) :
    ∀ (ds : List (Bool × Bool)) (chs : List Str) (x : Ctx), MemInv x.w →
      (∀ ch, ch ∈ accepted ds chs → Map.contains ch x.w.channels = true) →
      joinAnnounce cfg c nick ds chs x =
        { w := x.w
          direct := x.direct ++ (accepted ds chs).flatMap (joinBurst cfg c x.w)
          queued := x.queued ++ joinQueue x.w nick (C07.joinLine (x.conn c).source) (accepted ds chs) } := by
  intro ds
  induction ds with
  | nil =>
    intro chs x _ _
    have e : joinAnnounce cfg c nick [] chs x = x := by cases chs <;> rfl
    rw [e]; simp [accepted, joinQueue]
  | cons d ds ih =>
    intro chs x h hex
    obtain ⟨j, cr⟩ := d
    cases chs with
    | nil =>
      have e : joinAnnounce cfg c nick ((j, cr) :: ds) [] x = x := rfl
      rw [e]; simp [accepted, joinQueue]
    | cons chn chs =>
      rw [joinAnnounce_cons, accepted_cons]
      cases j with
      | false =>
        have e : announceOne cfg c nick false chn x = x := rfl
        rw [e]
        simp only [Bool.false_eq_true, ↓reduceIte]
        exact ih chs x h (fun ch hch => hex ch (by rw [accepted_cons]; exact hch))
      | true =>
        simp only [↓reduceIte]
        have hchn : Map.contains chn x.w.channels = true :=
          hex chn (by rw [accepted_cons]; exact List.mem_cons_self)
        obtain ⟨C, hC⟩ := (Map.contains_iff _ _).mp hchn
        have hmem := h.keys_are_users hC
        have e : announceOne cfg c nick true chn x = joinAnnounce cfg c nick [(true, cr)] [chn] x := rfl
        have key := C07.joinAnnounce_single cfg c nick chn cr x C hC hmem
        obtain ⟨x1, hx1⟩ : ∃ x1, x1 = joinAnnounce cfg c nick [(true, cr)] [chn] x := ⟨_, rfl⟩
        rw [e, ← hx1]
        rw [key] at hx1
        have hw : x1.w = x.w := by rw [hx1]
        have hconn : x1.conn c = x.conn c := by unfold Ctx.conn; rw [hw]
        rw [ih chs x1 (by rw [hw]; exact h)
          (fun ch hch => by
            rw [hw]; exact hex ch (by rw [accepted_cons]; exact List.mem_cons_of_mem _ hch))]
        rw [hconn]
        subst hx1
        simp only [List.flatMap_cons, joinQueue, List.append_assoc, joinBurst, hC,
          ownerOf_users_eq, C07.joinLine_eq, Irc.srvLine_eq, C07.srvLine, members_of_lookup hC]
        rfl

theorem conn_of_frame {x y : Ctx} (f : Frame x.w y.w) (c : Nat) : y.conn c = x.conn c := by
  unfold Ctx.conn World.conn?
  rw [f.conns]

/-- `processJoin` in closed form (for the user `n` of a registered connection) -/
theorem processJoin_closed {cfg : Cfg} {c : Nat} {channels : List Str} {keys : Option (List Str)} {x : Ctx}
    {n : Str} {u : User} (h : InvCore x.w) (hn : (x.conn c).nick = some n)
    (hu : Map.lookup n x.w.users = some u) :
    let ds := joinDecisions cfg c channels keys x n u
    let errs := (joinDecide cfg x.w (x.conn c) n u.invitedTo channels (joinKeyList keys)
      u.channels.length).2.1
    let y := processJoin cfg c channels keys x
    MemInv y.w ∧ Frame x.w y.w ∧
    (∀ ch m, y.w.memOf ch m = (x.w.memOf ch m || (decide (m = n) && joined ds channels ch))) ∧
    y.direct = x.direct ++ errs.map (srvLine cfg) ++ (accepted ds channels).flatMap (joinBurst cfg c y.w) ∧
    y.queued = x.queued ++ joinQueue y.w n (C07.joinLine (x.conn c).source) (accepted ds channels) := by
  intro ds errs y
  have hM := InvCore.memInv h
  have hdec : DecOK x.w n ds channels :=
    joinDecide_ok cfg x.w (x.conn c) n u.invitedTo channels (joinKeyList keys) u.channels.length
  obtain ⟨h1, f1, e1⟩ := joinApply_inv x.w n ds channels x.w hdec hM
    ((Map.contains_iff _ _).mpr ⟨u, hu⟩) (JoinInv.init x.w n)
  have hy : y = joinAnnounce cfg c n ds channels
      ((errs.foldl (fun x e => x.reply cfg e) x).modifyW (joinApply n ds channels)) := by
    show processJoin cfg c channels keys x = _
    rw [Memb.processJoin_eq, hn]
    dsimp only
    rw [hu]
  have hw1 : ((errs.foldl (fun x e => x.reply cfg e) x).modifyW (joinApply n ds channels)).w =
      joinApply n ds channels x.w := by
    simp only [Ctx.modifyW_w, reply_foldl_w]
  have hex : ∀ ch, ch ∈ accepted ds channels →
      Map.contains ch (joinApply n ds channels x.w).channels = true := by
    intro ch hch
    have : (joinApply n ds channels x.w).memOf ch n = true := by
      rw [e1, (mem_accepted_iff _ _ _).mp hch]; simp
    obtain ⟨C, hC, _⟩ := (World.memOf_iff _ _ _).mp this
    exact (Map.contains_iff _ _).mpr ⟨C, hC⟩
  have hann := joinAnnounce_eq cfg c n ds channels
    ((errs.foldl (fun x e => x.reply cfg e) x).modifyW (joinApply n ds channels))
    (by rw [hw1]; exact h1) (by rw [hw1]; exact hex)
  rw [← hy, hw1] at hann
  have hyw : y.w = joinApply n ds channels x.w := by rw [hann]
  have hconn : ((errs.foldl (fun x e => x.reply cfg e) x).modifyW (joinApply n ds channels)).conn c =
      x.conn c := by
    unfold Ctx.conn World.conn?
    rw [hw1, f1.conns]
  rw [hconn] at hann
  refine ⟨by rw [hyw]; exact h1, by rw [hyw]; exact f1, by rw [hyw]; exact e1, ?_, ?_⟩
  · rw [hyw, hann]
    simp only [Ctx.modifyW_direct, C07.foldl_reply, List.append_assoc]
    congr 2
    apply List.map_congr_left
    intro e _
    rw [Irc.srvLine_eq]; rfl
  · rw [hyw, hann]
    simp only [Ctx.modifyW_queued, C07.foldl_reply]

/-- the NAMES reply for channel `ch` carrying the `(prefix, nick)` entries `es`: 353 lines with 20 entries
    each, then 366 -/
def namesReply (cfg : Cfg) (client : Str) (secret : Bool) (ch : Str) (es : List (Str × Str)) : List Str :=
  (chunks 20 es).map (fun chunk =>
    srvLine cfg (RplNameReply353 client (if secret then ['@'] else ['=']) ch chunk)) ++
  [srvLine cfg (RplEndOfNames366 client ch)]

/-- the burst the joiner gets, spelled out: the names carried by its 353 lines are exactly the member
    list of the channel (the joiner is a member, so it also sees the invisible members) -/
theorem joinBurst_names {cfg : Cfg} {c : Nat} {w : World} (h : InvCore w) {ch : Str} {C : Channel}
    (hC : Map.lookup ch w.channels = some C) {n : Str}
    (hn : (({ w := w } : Ctx).conn c).nick = some n) (hmem : Map.contains n C.users = true)
    (hne : ∀ m, Map.contains m C.users = true → m ≠ []) :
    let cn := ({ w := w } : Ctx).conn c
    let es := C04.namesEntries w (some n) cn.multiPrefix C
    joinBurst cfg c w ch = C07.joinLine cn.source ch ::
      ((match C.topic with
        | some t => [srvLine cfg (RplTopic332 cn.clientName ch t.topic)]
        | none => []) ++ namesReply cfg cn.clientName C.modes.secret ch es) ∧
    es.map (·.2) = members w ch := by
  intro cn es
  obtain ⟨o1, o2⟩ := C04.names_output (cfg := cfg) (c := c) (chname := ch) (C := C) (theEnd := true)
    (x := { w := w }) hne
  rw [hn] at o1 o2
  have hon : C04.onChannel (some n) C = true := by simp [C04.onChannel, hmem]
  constructor
  · unfold joinBurst
    rw [hC]
    dsimp only
    rw [o1, hon]
    simp only [Bool.or_true, ↓reduceIte, List.nil_append, namesReply]
    rfl
  · rw [members_of_lookup hC]
    exact o2.trans (C04.names_view_member h hC hmem)

/-! ## 3. KICK -/

/-- the victims of `KICK channel kickUsers` issued on connection `c`: the selection the handler makes
    when the issuer is a member of rank half-operator or above, nobody otherwise
    (characterised by `mem_kickedOf_iff`) -/
def kickedOf (x : Ctx) (c : Nat) (channel : Str) (kickUsers : List Str) : List Str :=
  match (x.conn c).nick with
  | none => []
  | some n =>
    match Map.lookup channel x.w.channels with
    | none => []
    | some C =>
      match Map.lookup n C.users with
      | none => []
      | some chum =>
        if chum.isHalfOperator then
          (kickSelect (x.conn c).clientName channel C chum.isOnlyHalfOperator kickUsers []).1
        else []

/-- what a KICK queues: for every victim in turn, its KICK line to every member REMAINING after all the
    kicks of the command (`w'` = world after), then to the victim itself -/
def kickQueue {β : Type} (w w' : World) (channel : Str) (line : Str → β) (kicked : List Str) :
    List (Nat × β) :=
  kicked.flatMap (fun v => (members w' channel ++ [v]).map (fun m => (ownerOf w m, line v)))

theorem kickLine_inj (src ch : Str) (comment : Option Str) {v v' : Str}
    (h : kickLine src ch v comment = kickLine src ch v' comment) : v = v' := by
  unfold kickLine at h
  simp only [List.append_assoc] at h
  have h1 := List.append_cancel_left h
  have h2 := List.append_cancel_left h1
  have h3 := List.append_cancel_left h2
  have h4 := List.append_cancel_left h3
  have h5 := List.append_cancel_left h4
  exact List.append_cancel_right h5

theorem mem_kickedOf_iff {x : Ctx} {c : Nat} {n : Str} (hn : (x.conn c).nick = some n)
    (channel : Str) (kickUsers : List Str) (v : Str) :
    v ∈ kickedOf x c channel kickUsers ↔ v ∈ kickUsers ∧ KickVictim x.w channel n v := by
  unfold kickedOf KickVictim
  rw [hn]
  dsimp only
  cases hC : Map.lookup channel x.w.channels with
  | none =>
    dsimp only
    constructor
    · intro hv; cases hv
    · rintro ⟨_, C, _, _, hC', _⟩; cases hC'
  | some C =>
    dsimp only
    cases hcn : Map.lookup n C.users with
    | none =>
      dsimp only
      constructor
      · intro hv; cases hv
      · rintro ⟨_, C', _, _, hC', hcn', _⟩; cases hC'; rw [hcn] at hcn'; cases hcn'
    | some chum =>
      dsimp only
      cases hho : chum.isHalfOperator with
      | false =>
        simp only [Bool.false_eq_true, ↓reduceIte]
        constructor
        · intro hv; cases hv
        · rintro ⟨_, C', _, _, hC', hcn', hh, _⟩
          cases hC'; rw [hcn] at hcn'; cases hcn'; rw [hho] at hh; cases hh
      | true =>
        simp only [↓reduceIte]
        rw [(Memb.kickSelect_spec (x.conn c).clientName channel C chum.isOnlyHalfOperator
          kickUsers [] List.nodup_nil).2 v]
        constructor
        · rintro (a | ⟨a, cm, hcm, p1, p2⟩)
          · cases a
          · exact ⟨a, C, chum, cm, rfl, hcn, hho, hcm, p1, p2⟩
        · rintro ⟨a, C', cn', cm, hC', hcn', _, hcm, p1, p2⟩
          cases hC'; rw [hcn] at hcn'; cases hcn'
          exact Or.inr ⟨a, cm, hcm, p1, p2⟩

theorem kickedOf_nodup (x : Ctx) (c : Nat) (channel : Str) (kickUsers : List Str) :
    (kickedOf x c channel kickUsers).Nodup := by
  unfold kickedOf
  repeat' split
  all_goals first
    | exact List.nodup_nil
    | exact (Memb.kickSelect_spec _ _ _ _ _ [] List.nodup_nil).1

theorem processKick_queued {cfg : Cfg} {c : Nat} {channel : Str} {kickUsers : List Str}
    {comment : Option Str} {x : Ctx} {n : Str} (h : InvCore x.w) (hn : (x.conn c).nick = some n) :
    (processKick cfg c channel kickUsers comment x).queued = x.queued ++
      kickQueue x.w (processKick cfg c channel kickUsers comment x).w channel
        (fun v => kickLine (x.conn c).source channel v comment) (kickedOf x c channel kickUsers) := by
  obtain ⟨r1, r2, r3⟩ := C09.kick_requires_rank cfg c channel kickUsers comment x n hn
  cases hC : Map.lookup channel x.w.channels with
  | none =>
    rw [(r1 hC).2.1]
    simp [kickedOf, hn, hC, kickQueue]
  | some C =>
    cases hcn : Map.lookup n C.users with
    | none =>
      rw [(r2 C hC hcn).2.1]
      simp [kickedOf, hn, hC, hcn, kickQueue]
    | some chum =>
      cases hho : chum.isHalfOperator with
      | false =>
        rw [(r3 C chum hC hcn hho).2.1]
        simp [kickedOf, hn, hC, hcn, hho, kickQueue]
      | true =>
        have hq := (C09.kick_effect cfg c channel kickUsers comment x n C chum hn hC hcn hho
          (fun m hm => h.memberIsUser channel C m hC hm)).2.2.2.2.2
        rw [hq]
        simp only [kickedOf, hn, hC, hcn, hho, ↓reduceIte, kickQueue]
        rfl

/-! ## 4. NICK (re-proved here, see the header) -/

/-- an accepted NICK of a registered connection: the line (the received message re-rendered with the
    OLD source) is queued once to every user of the new world, in key order; nothing is written back -/
theorem processNick_queued {cfg : Cfg} {c : Nat} {new : Str} {msg : Message} {x : Ctx} {old : Str}
    {user : User} (ha : (x.conn c).authenticated = true) (hnick : (x.conn c).nick = some old)
    (hne : new ≠ old) (hfree : Map.contains new x.w.users = false)
    (hold : Map.lookup old x.w.users = some user) :
    let y := processNick cfg c new msg x
    y.queued = x.queued ++
      (Map.keys y.w.users).map (fun m => (ownerOf y.w m, msg.render (x.conn c).source)) ∧
    y.direct = x.direct := by
  intro y
  have e : y = _ := Reg.processNick_rename_eq (cfg := cfg) (msg := msg) ha hnick hne hfree hold
  rw [Ctx.sendAll_known _ _ _ (fun n hn => Map.contains_of_mem_keys hn)] at e
  rw [e]
  exact ⟨rfl, rfl⟩

theorem processNick_users {cfg : Cfg} {c : Nat} {new : Str} {msg : Message} {x : Ctx} {old : Str}
    {user : User} (h : InvCore x.w) (ha : (x.conn c).authenticated = true)
    (hnick : (x.conn c).nick = some old) (hne : new ≠ old)
    (hfree : Map.contains new x.w.users = false) (hold : Map.lookup old x.w.users = some user) :
    (processNick cfg c new msg x).w.users =
      Map.insert new { user with source := ((x.conn c).setNick new).source } (Map.erase old x.w.users) := by
  obtain ⟨chans', hW, _, _⟩ := Reg.processNick_rename_w (cfg := cfg) (msg := msg) h ha hnick hne hfree hold
  rw [hW]

/-- the recipients: the users of the new world are the old ones with `old` replaced by `new`; the owner
    of every nickname is unchanged, `new` is owned by the connection that owned `old` -/
theorem processNick_recipients {cfg : Cfg} {c : Nat} {new : Str} {msg : Message} {x : Ctx} {old : Str}
    {user : User} (h : InvCore x.w) (ha : (x.conn c).authenticated = true)
    (hnick : (x.conn c).nick = some old) (hne : new ≠ old)
    (hfree : Map.contains new x.w.users = false) (hold : Map.lookup old x.w.users = some user) (k : Str) :
    (k ∈ Map.keys (processNick cfg c new msg x).w.users ↔
      k = new ∨ (k ≠ old ∧ k ∈ Map.keys x.w.users)) ∧
    ownerOf (processNick cfg c new msg x).w new = ownerOf x.w old ∧
    (k ≠ old → k ≠ new → ownerOf (processNick cfg c new msg x).w k = ownerOf x.w k) := by
  have hu := processNick_users (cfg := cfg) (msg := msg) h ha hnick hne hfree hold
  refine ⟨?_, ?_, ?_⟩
  · rw [hu, Map.mem_keys_iff, Map.mem_keys_iff, Map.lookup_insert]
    by_cases e1 : new = k
    · subst e1; simp
    · have e1' : ¬ k = new := fun e => e1 e.symm
      rw [if_neg e1, Map.lookup_erase]
      by_cases e2 : old = k
      · subst e2; simp [e1']
      · have e2' : ¬ k = old := fun e => e2 e.symm
        simp [e1', e2, e2']
  · unfold ownerOf
    rw [hu, Map.lookup_insert_eq, hold]
    rfl
  · intro h1 h2
    unfold ownerOf
    rw [hu, Map.lookup_insert_ne _ _ _ _ (Ne.symm h2), Map.lookup_erase_ne _ _ _ (Ne.symm h1)]

/-- a registered NICK that does not rename (own nickname, or nickname in use) queues nothing -/
theorem processNick_noop_queued {cfg : Cfg} {c : Nat} {new : Str} {msg : Message} {x : Ctx} {old : Str}
    (ha : (x.conn c).authenticated = true) (hnick : (x.conn c).nick = some old)
    (hno : new = old ∨ Map.contains new x.w.users = true) :
    (processNick cfg c new msg x).queued = x.queued ∧ (processNick cfg c new msg x).w = x.w := by
  by_cases hne : new = old
  · have : processNick cfg c new msg x = x := by
      unfold processNick
      simp only [ha, Bool.not_true, Bool.false_eq_true, ↓reduceIte, hnick, hne, bne_self_eq_false]
    rw [this]; exact ⟨rfl, rfl⟩
  · have hc : Map.contains new x.w.users = true := hno.elim (fun e => absurd e hne) id
    have hb : (new != old) = true := by simpa using hne
    unfold processNick
    simp only [ha, Bool.not_true, Bool.false_eq_true, ↓reduceIte, hnick, hb, hc, Ctx.reply_w,
      Ctx.reply_queued, and_self]

/-- the NICK line is canonical when the client sent exactly `NICK <new>` -/
theorem nick_line_canonical (msg : Message) (src new : Str) (hc : msg.command = str "NICK")
    (hp : msg.params = [new])
    (hplain : (new.any (fun ch => ch == ':' || ch == ' ' || ch == '\t') || new.isEmpty) = false) :
    msg.render src = nickLine src new := by
  unfold Message.render nickLine
  rw [hc, hp]
  simp only [renderParams, hplain, Bool.false_eq_true, ↓reduceIte]
  simp [str]

end Irc.C04A
