/-
  Helper definitions and lemmas for `Irc/Props/C04Announce.lean` (the ANNOUNCEMENT half of C04):
  what JOIN / PART / KICK / NICK push to whom, and the client-side roster reconstruction.

  Imports `C07` (JOIN) and `C09` (KICK).  `C15` (NICK) cannot be imported together with `C09`
  (`Irc.ownerOf` is defined both in `ChanPrivLemmas` and in `IdentLemmas`), so the few facts about the
  NICK announcement are re-proved here from `Reg.processNick_rename_eq / _w` (Irc/InvProofs/Registration).
-/
import Irc.Props.C04
import Irc.Props.C07
import Irc.Props.C09

namespace Irc.C04A
open Irc Reply Memb

/-! ## 0. vocabulary -/

/-- the member list of channel `ch` in the order of the channel's member map (`[]` if there is no such
    channel) -/
def members (w : World) (ch : Str) : List Str :=
  match Map.lookup ch w.channels with
  | some C => Map.keys C.users
  | none => []

theorem members_of_lookup {w : World} {ch : Str} {C : Channel} (h : Map.lookup ch w.channels = some C) :
    members w ch = Map.keys C.users := by
  unfold members; rw [h]

theorem members_of_none {w : World} {ch : Str} (h : Map.lookup ch w.channels = none) :
    members w ch = [] := by
  unfold members; rw [h]

theorem members_congr {w w' : World} {ch : Str}
    (h : Map.lookup ch w'.channels = Map.lookup ch w.channels) : members w' ch = members w ch := by
  unfold members; rw [h]

theorem mem_members_iff (w : World) (ch m : Str) : m ∈ members w ch ↔ w.memOf ch m = true := by
  unfold members World.memOf
  cases Map.lookup ch w.channels with
  | none => simp
  | some C => simp only [Map.mem_keys_iff, Map.contains_iff]

theorem members_nodup {w : World} (h : InvCore w) (ch : Str) : (members w ch).Nodup := by
  unfold members
  cases hC : Map.lookup ch w.channels with
  | none => exact List.nodup_nil
  | some C => exact h.membersNodup ch C hC

theorem members_are_users {w : World} (h : MemInv w) {ch m : Str} (hm : m ∈ members w ch) :
    Map.contains m w.users = true :=
  h.memberIsUser ch m ((mem_members_iff w ch m).mp hm)

/-- the owner is part of what a `Frame` keeps -/
theorem ownerOf_frame {w w' : World} (f : Frame w w') (n : Str) : ownerOf w' n = ownerOf w n := by
  unfold ownerOf
  have h1 := ucore_lookup n w'.users
  rw [f.ucore, ucore_lookup] at h1
  cases h2 : Map.lookup n w'.users <;> cases h3 : Map.lookup n w.users <;> rw [h2, h3] at h1 <;>
    simp at h1 ⊢
  exact h1.2.1.symm

theorem ownerOf_of_lookup {w : World} {n : Str} {u : User} (h : Map.lookup n w.users = some u) :
    ownerOf w n = u.owner := by
  simp [ownerOf, h]

theorem ownerOf_users_eq (w : World) (n : Str) : C07.ownerOf w.users n = ownerOf w n := by
  unfold C07.ownerOf ownerOf
  cases Map.lookup n w.users <;> rfl

/-- two different nicknames are never owned by the same connection -/
theorem owner_inj {w : World} (h : InvCore w) {m n : Str} {u v : User}
    (hu : Map.lookup m w.users = some u) (hv : Map.lookup n w.users = some v)
    (ho : u.owner = v.owner) : m = n := by
  obtain ⟨c1, hc1, hid1, _, hn1⟩ := h.userOwned m u hu
  obtain ⟨c2, hc2, hid2, _, hn2⟩ := h.userOwned n v hv
  have hid : c1.id = c2.id := by rw [hid1, hid2, ho]
  have : c1 = c2 := by
    have hnd := h.connsNodup
    clear hn1 hn2 hid1 hid2
    generalize w.conns = l at hc1 hc2 hnd
    induction l with
    | nil => cases hc1
    | cons a l ih =>
      simp only [List.map_cons, List.nodup_cons, List.mem_map, not_exists, not_and] at hnd
      rcases List.mem_cons.mp hc1 with rfl | h1 <;> rcases List.mem_cons.mp hc2 with rfl | h2
      · rfl
      · exact absurd hid.symm (hnd.1 c2 h2)
      · exact absurd hid (hnd.1 c1 h1)
      · exact ih h1 h2 hnd.2
  subst this
  rw [hn1] at hn2
  cases hn2; rfl

theorem ownerOf_inj {w : World} (h : InvCore w) {m n : Str}
    (hm : Map.contains m w.users = true) (hn : Map.contains n w.users = true)
    (ho : ownerOf w m = ownerOf w n) : m = n := by
  obtain ⟨u, hu⟩ := (Map.contains_iff _ _).mp hm
  obtain ⟨v, hv⟩ := (Map.contains_iff _ _).mp hn
  rw [ownerOf_of_lookup hu, ownerOf_of_lookup hv] at ho
  exact owner_inj h hu hv ho

/-! ### the lines -/

/-- the PART line as the clients see it: `:<source> PART <channel>[ :<reason>]` -/
def partLine (src ch : Str) (reason : Option Str) : Str :=
  str ":" ++ src ++ str " PART " ++ ch ++
    (match reason with
     | some r => str " :" ++ r
     | none => [])

/-- the KICK line: `:<source> KICK <channel> <victim> :<comment or "Kicked">` -/
def kickLine (src ch v : Str) (comment : Option Str) : Str :=
  str ":" ++ src ++ str " KICK " ++ ch ++ str " " ++ v ++ str " :" ++ comment.getD (str "Kicked")

/-- the canonical NICK line: `:<old source> NICK <new>` -/
def nickLine (src new : Str) : Str := str ":" ++ src ++ str " NICK " ++ new

theorem partLine_eq (src ch : Str) (reason : Option Str) :
    partLine src ch reason = ':' :: (src ++ ' ' :: (match reason with
      | some r => str "PART " ++ ch ++ str " :" ++ r
      | none => str "PART " ++ ch)) := by
  cases reason <;> simp [partLine, str]

theorem partLine_inj (src : Str) (reason : Option Str) {ch ch' : Str}
    (h : partLine src ch reason = partLine src ch' reason) : ch = ch' := by
  unfold partLine at h
  simp only [List.append_assoc] at h
  have h1 := List.append_cancel_left h
  have h2 := List.append_cancel_left h1
  have h3 := List.append_cancel_left h2
  exact List.append_cancel_right h3

/-! ## 1. PART -/

/-- what one PART command of user `n` queues, computed from the world BEFORE the command:
    for every listed channel of which `n` is a member and which was not listed earlier in the same
    command (`seen`), one entry per member (the parting user included), in member order. -/
def partQueue {β : Type} (w : World) (n : Str) (line : Str → β) : List Str → List Str → List (Nat × β)
  | _, [] => []
  | seen, ch :: rest =>
    (if n ∈ members w ch ∧ ch ∉ seen then (members w ch).map (fun m => (ownerOf w m, line ch)) else []) ++
      partQueue w n line (ch :: seen) rest

theorem partStep_queued (cfg : Cfg) (cn : Conn) (n : Str) (reason : Option Str) (x : Ctx) (chn : Str)
    (h : MemInv x.w) :
    (partStep cfg cn n reason x chn).queued = x.queued ++
      (if n ∈ members x.w chn then
        (members x.w chn).map (fun m => (ownerOf x.w m, partLine cn.source chn reason)) else []) := by
  unfold partStep
  cases hC : Map.lookup chn x.w.channels with
  | none => simp [members_of_none hC]
  | some C =>
    dsimp only
    rw [members_of_lookup hC]
    cases hm : Map.contains n C.users with
    | false =>
      have : n ∉ Map.keys C.users := fun hk => by
        rw [Map.contains_of_mem_keys hk] at hm; cases hm
      simp [this]
    | true =>
      have hk : n ∈ Map.keys C.users := Map.mem_keys_of_contains hm
      simp only [↓reduceIte, Ctx.modifyW_queued, hk]
      rw [Ctx.sendDisplayAll_known _ _ _ _ (fun m hm' => h.keys_are_users hC m hm'), partLine_eq]
      cases reason <;> rfl

theorem partStep_direct (cfg : Cfg) (cn : Conn) (n : Str) (reason : Option Str) (x : Ctx) (chn : Str)
    (h : MemInv x.w) :
    (partStep cfg cn n reason x chn).direct = x.direct ++
      (if n ∈ members x.w chn then []
       else [srvLine cfg (if Map.contains chn x.w.channels then ErrNotOnChannel442 cn.clientName chn
                             else ErrNoSuchChannel403 cn.clientName chn)]) := by
  unfold partStep
  cases hC : Map.lookup chn x.w.channels with
  | none => simp [members_of_none hC, Map.contains, hC, srvLine, str]
  | some C =>
    dsimp only
    rw [members_of_lookup hC]
    cases hm : Map.contains n C.users with
    | false =>
      have : n ∉ Map.keys C.users := fun hk => by
        rw [Map.contains_of_mem_keys hk] at hm; cases hm
      simp [this, Map.contains, hC, srvLine, str]
    | true =>
      have hk : n ∈ Map.keys C.users := Map.mem_keys_of_contains hm
      simp only [↓reduceIte, Ctx.modifyW_direct, hk, List.append_nil]
      rw [Ctx.sendDisplayAll_known _ _ _ _ (fun m hm' => h.keys_are_users hC m hm')]

theorem partQueue_seen_congr {β : Type} (w : World) (n : Str) (line : Str → β) :
    ∀ (rest s1 s2 : List Str), (∀ k, k ∈ s1 ↔ k ∈ s2) →
      partQueue w n line s1 rest = partQueue w n line s2 rest := by
  intro rest
  induction rest with
  | nil => intros; rfl
  | cons a rest ih =>
    intro s1 s2 hs
    simp only [partQueue]
    rw [ih (a :: s1) (a :: s2) (fun k => by simp [hs k])]
    simp only [hs a]

/-- the queue specification does not notice that `n` has meanwhile left the channel `chn`, provided
    `chn` counts as seen -/
theorem partQueue_after_step {β : Type} (w w' : World) (n : Str) (line : Str → β) (chn : Str)
    (hother : ∀ ch, ch ≠ chn → members w' ch = members w ch)
    (hgone : n ∉ members w' chn) (hown : ∀ m, ownerOf w' m = ownerOf w m) :
    ∀ (rest seen : List Str), partQueue w' n line seen rest = partQueue w n line (chn :: seen) rest := by
  intro rest
  induction rest with
  | nil => intro seen; rfl
  | cons ch rest ih =>
    intro seen
    simp only [partQueue]
    by_cases e : ch = chn
    · subst e
      rw [ih (ch :: seen)]
      simp only [hgone, false_and, ↓reduceIte, List.mem_cons, true_or, not_true_eq_false, and_false,
        List.nil_append]
    · rw [hother ch e, ih (ch :: seen)]
      simp only [hown, List.mem_cons, e, false_or]
      congr 1
      exact partQueue_seen_congr w n line rest _ _ (fun k => by
        simp only [List.mem_cons]; exact or_left_comm)

theorem partStep_members_other (cfg : Cfg) (cn : Conn) (n : Str) (reason : Option Str) (x : Ctx)
    (chn : Str) (h : MemInv x.w) {ch : Str} (hne : ch ≠ chn) :
    Map.lookup ch (partStep cfg cn n reason x chn).w.channels = Map.lookup ch x.w.channels := by
  rw [partStep_w cfg cn n reason x chn h]
  split
  · exact rufc_lookup_ne _ _ hne
  · rfl

theorem part_fold_queued (cfg : Cfg) (cn : Conn) (n : Str) (reason : Option Str) (channels : List Str)
    (x : Ctx) (h : MemInv x.w) :
    (channels.foldl (partStep cfg cn n reason) x).queued = x.queued ++
      partQueue x.w n (fun ch => partLine cn.source ch reason) [] channels := by
  induction channels generalizing x with
  | nil => simp [partQueue]
  | cons chn rest ih =>
    simp only [List.foldl_cons]
    obtain ⟨h1, f1, e1⟩ := partStep_inv cfg cn n reason x chn h
    rw [ih _ h1, partStep_queued cfg cn n reason x chn h]
    rw [partQueue_after_step x.w (partStep cfg cn n reason x chn).w n _ chn
      (fun ch hne => members_congr (partStep_members_other cfg cn n reason x chn h hne))
      (by rw [mem_members_iff, e1]; simp)
      (fun m => ownerOf_frame f1 m) rest []]
    simp only [partQueue, List.not_mem_nil, not_false_eq_true, and_true, List.append_assoc]

theorem processPart_queued {cfg : Cfg} {c : Nat} {channels : List Str} {reason : Option Str} {x : Ctx}
    {n : Str} (h : InvCore x.w) (hn : (x.conn c).nick = some n) :
    (processPart cfg c channels reason x).queued = x.queued ++
      partQueue x.w n (fun ch => partLine (x.conn c).source ch reason) [] channels := by
  rw [processPart_eq, hn]
  dsimp only
  have := part_fold_queued cfg (x.conn c) n reason channels x (InvCore.memInv h)
  split
  · exact this
  · exact this

/-! ### PART: who gets a line, and how often -/

theorem mem_partQueue_iff {β : Type} (w : World) (n : Str) (line : Str → β) (o : Nat) (l : β) :
    ∀ (chs seen : List Str), (o, l) ∈ partQueue w n line seen chs ↔
      ∃ ch, ch ∈ chs ∧ ch ∉ seen ∧ n ∈ members w ch ∧ l = line ch ∧
        ∃ m, m ∈ members w ch ∧ ownerOf w m = o := by
  intro chs
  induction chs with
  | nil => intro seen; simp [partQueue]
  | cons a rest ih =>
    intro seen
    simp only [partQueue, List.mem_append, ih (a :: seen)]
    constructor
    · rintro (hh | ⟨ch, h1, h2, h3, h4, h5⟩)
      · split at hh
        · rename_i hc
          obtain ⟨m, hm, he⟩ := List.mem_map.mp hh
          cases he
          exact ⟨a, List.mem_cons_self, hc.2, hc.1, rfl, m, hm, rfl⟩
        · cases hh
      · exact ⟨ch, List.mem_cons_of_mem _ h1, fun hs => h2 (List.mem_cons_of_mem _ hs), h3, h4, h5⟩
    · rintro ⟨ch, h1, h2, h3, h4, m, hm, ho⟩
      by_cases e : ch = a
      · subst e
        left
        rw [if_pos ⟨h3, h2⟩]
        exact List.mem_map.mpr ⟨m, hm, by rw [ho, h4]⟩
      · right
        rcases List.mem_cons.mp h1 with h1 | h1
        · exact absurd h1 e
        · exact ⟨ch, h1, fun hs => (List.mem_cons.mp hs).elim e h2, h3, h4, m, hm, ho⟩

theorem count_map_of_inj_on {α β : Type} [BEq β] [LawfulBEq β] (f : α → β) :
    ∀ (l : List α) (a : α), l.Nodup → (∀ b, b ∈ l → f b = f a → b = a) → a ∈ l →
      List.count (f a) (l.map f) = 1 := by
  intro l
  induction l with
  | nil => intro a _ _ ha; cases ha
  | cons b l ih =>
    intro a hnd hinj ha
    rw [List.map_cons, List.count_cons]
    obtain ⟨hb, hnd'⟩ := List.nodup_cons.mp hnd
    by_cases e : b = a
    · subst e
      have : List.count (f b) (l.map f) = 0 := by
        rw [List.count_eq_zero]
        intro hm
        obtain ⟨b', hb', he⟩ := List.mem_map.mp hm
        have := hinj b' (List.mem_cons_of_mem _ hb') he
        subst this
        exact hb hb'
      simp [this]
    · have ha' : a ∈ l := (List.mem_cons.mp ha).elim (fun h => absurd h.symm e) id
      have hne : ¬ f b = f a := fun he => e (hinj b List.mem_cons_self he)
      rw [ih a hnd' (fun b' hb' => hinj b' (List.mem_cons_of_mem _ hb')) ha']
      simp [hne]

/-- every member of a listed channel the user is on gets the line of that channel EXACTLY once -
    also when the channel is listed several times -/
theorem count_partQueue {β : Type} [BEq β] [LawfulBEq β] {w : World} (h : InvCore w) (n : Str) (line : Str → β)
    (hinj : ∀ a b, line a = line b → a = b) {ch m : Str} (hn : n ∈ members w ch)
    (hm : m ∈ members w ch) :
    ∀ (chs seen : List Str), List.count (ownerOf w m, line ch) (partQueue w n line seen chs) =
      if ch ∈ chs ∧ ch ∉ seen then 1 else 0 := by
  intro chs
  induction chs with
  | nil => intro seen; simp [partQueue]
  | cons a rest ih =>
    intro seen
    simp only [partQueue, List.count_append, ih (a :: seen)]
    by_cases e : a = ch
    · subst e
      by_cases hs : a ∈ seen
      · simp [hs]
      · rw [if_pos ⟨hn, hs⟩]
        have h1 : List.count (ownerOf w m, line a)
            ((members w a).map (fun m' => (ownerOf w m', line a))) = 1 := by
          apply count_map_of_inj_on (fun m' => (ownerOf w m', line a)) _ m (members_nodup h a) _ hm
          intro b hb he
          simp only [Prod.mk.injEq, and_true] at he
          exact ownerOf_inj h (members_are_users (InvCore.memInv h) hb)
            (members_are_users (InvCore.memInv h) hm) he
        rw [h1]
        simp [hs]
    · have h0 : List.count (ownerOf w m, line ch)
          (if n ∈ members w a ∧ a ∉ seen then
            (members w a).map (fun m' => (ownerOf w m', line a)) else []) = 0 := by
        rw [List.count_eq_zero]
        intro hmem
        split at hmem
        · obtain ⟨b, _, he⟩ := List.mem_map.mp hmem
          simp only [Prod.mk.injEq] at he
          exact e (hinj _ _ he.2)
        · cases hmem
      rw [h0]
      have e' : ¬ ch = a := fun x => e x.symm
      simp [e']

/-! ### PART: the replies to the sender -/

/-- does channel `ch` still exist once `n` has left it?  (an emptied ad-hoc channel is deleted) -/
def survives (w : World) (ch n : Str) : Bool :=
  match Map.lookup ch w.channels with
  | some C => !((Map.erase n C.users).isEmpty && !C.preconfigured)
  | none => false

/-- what one PART command writes back to the sender, computed from the world before the command: no
    line for a channel that is announced; otherwise 442 if the channel exists at that moment (also: if it
    still exists after the user left it earlier in the same command), 403 if not -/
def partReplies (w : World) (n client : Str) : List Str → List Str → List Str
  | _, [] => []
  | seen, ch :: rest =>
    (if n ∈ members w ch ∧ ch ∉ seen then []
     else [if (if n ∈ members w ch then survives w ch n else Map.contains ch w.channels) = true
           then ErrNotOnChannel442 client ch else ErrNoSuchChannel403 client ch]) ++
      partReplies w n client (ch :: seen) rest

theorem partReplies_seen_congr (w : World) (n client : Str) :
    ∀ (rest s1 s2 : List Str), (∀ k, k ∈ s1 ↔ k ∈ s2) →
      partReplies w n client s1 rest = partReplies w n client s2 rest := by
  intro rest
  induction rest with
  | nil => intros; rfl
  | cons a rest ih =>
    intro s1 s2 hs
    simp only [partReplies]
    rw [ih (a :: s1) (a :: s2) (fun k => by simp [hs k])]
    simp only [hs a]

theorem partReplies_after_step (w w' : World) (n client : Str) (chn : Str)
    (hother : ∀ ch, ch ≠ chn → Map.lookup ch w'.channels = Map.lookup ch w.channels)
    (hgone : n ∉ members w' chn)
    (hsurv : Map.contains chn w'.channels =
      if n ∈ members w chn then survives w chn n else Map.contains chn w.channels) :
    ∀ (rest seen : List Str),
      partReplies w' n client seen rest = partReplies w n client (chn :: seen) rest := by
  intro rest
  induction rest with
  | nil => intro seen; rfl
  | cons ch rest ih =>
    intro seen
    simp only [partReplies]
    by_cases e : ch = chn
    · subst e
      rw [ih (ch :: seen)]
      simp only [hgone, false_and, ↓reduceIte, List.mem_cons, true_or, not_true_eq_false, and_false, hsurv]
    · rw [members_congr (hother ch e), ih (ch :: seen)]
      have h1 : survives w' ch n = survives w ch n := by unfold survives; rw [hother ch e]
      have h2 : Map.contains ch w'.channels = Map.contains ch w.channels := by
        unfold Map.contains; rw [hother ch e]
      simp only [h1, h2, List.mem_cons, e, false_or]
      congr 1
      exact partReplies_seen_congr w n client rest _ _ (fun k => by
        simp only [List.mem_cons]; exact or_left_comm)

theorem partStep_contains (cfg : Cfg) (cn : Conn) (n : Str) (reason : Option Str) (x : Ctx) (chn : Str)
    (h : MemInv x.w) :
    Map.contains chn (partStep cfg cn n reason x chn).w.channels =
      if n ∈ members x.w chn then survives x.w chn n else Map.contains chn x.w.channels := by
  rw [partStep_w cfg cn n reason x chn h]
  simp only [mem_members_iff]
  by_cases hm : x.w.memOf chn n = true
  · rw [if_pos hm, if_pos hm]
    obtain ⟨C, hC, hc⟩ := (World.memOf_iff _ _ _).mp hm
    rw [(rufc_channels_member hC hc).1]
    unfold survives
    rw [hC]
    dsimp only
    by_cases hh : ((Channel.without C n).users.isEmpty && !(Channel.without C n).preconfigured) = true
    · rw [if_pos hh]
      have hh' : ((Map.erase n C.users).isEmpty && !C.preconfigured) = true := hh
      rw [hh']
      simp [Map.contains]
    · rw [if_neg hh]
      have hh' : ((Map.erase n C.users).isEmpty && !C.preconfigured) = false := by
        cases hq : ((Map.erase n C.users).isEmpty && !C.preconfigured)
        · rfl
        · exact absurd hq hh
      rw [hh']
      simp [Map.contains]
  · rw [if_neg hm, if_neg hm]

theorem part_fold_direct (cfg : Cfg) (cn : Conn) (n : Str) (reason : Option Str) (channels : List Str)
    (x : Ctx) (h : MemInv x.w) :
    (channels.foldl (partStep cfg cn n reason) x).direct = x.direct ++
      (partReplies x.w n cn.clientName [] channels).map (srvLine cfg) := by
  induction channels generalizing x with
  | nil => simp [partReplies]
  | cons chn rest ih =>
    simp only [List.foldl_cons]
    obtain ⟨h1, f1, e1⟩ := partStep_inv cfg cn n reason x chn h
    rw [ih _ h1, partStep_direct cfg cn n reason x chn h]
    rw [partReplies_after_step x.w (partStep cfg cn n reason x chn).w n _ chn
      (fun ch hne => partStep_members_other cfg cn n reason x chn h hne)
      (by rw [mem_members_iff, e1]; simp)
      (partStep_contains cfg cn n reason x chn h) rest []]
    simp only [partReplies, List.not_mem_nil, not_false_eq_true, and_true, List.append_assoc,
      List.map_append]
    congr 1
    by_cases hm : n ∈ members x.w chn
    · simp [hm]
    · simp [hm]

theorem processPart_direct {cfg : Cfg} {c : Nat} {channels : List Str} {reason : Option Str} {x : Ctx}
    {n : Str} (h : InvCore x.w) (hn : (x.conn c).nick = some n) :
    (processPart cfg c channels reason x).direct = x.direct ++
      (partReplies x.w n (x.conn c).clientName [] channels).map (srvLine cfg) := by
  rw [processPart_eq, hn]
  dsimp only
  have := part_fold_direct cfg (x.conn c) n reason channels x (InvCore.memInv h)
  split
  · exact this
  · exact this

/-! ## 2. JOIN -/

/-- the listed channels of a JOIN whose decision is positive, in list order (a channel that is accepted
    twice occurs twice) -/
def accepted (ds : List (Bool × Bool)) (chs : List Str) : List Str :=
  ((ds.zip chs).filter (fun p => p.1.1)).map (·.2)

theorem accepted_cons (j cr : Bool) (ds : List (Bool × Bool)) (chn : Str) (chs : List Str) :
    accepted ((j, cr) :: ds) (chn :: chs) = if j then chn :: accepted ds chs else accepted ds chs := by
  cases j <;> simp [accepted]

theorem mem_accepted_iff (ds : List (Bool × Bool)) (chs : List Str) (ch : Str) :
    ch ∈ accepted ds chs ↔ joined ds chs ch = true := by
  simp only [accepted, joined, List.mem_map, List.mem_filter, List.any_eq_true, Bool.and_eq_true,
    decide_eq_true_eq]
  constructor
  · rintro ⟨p, ⟨h1, h2⟩, h3⟩; exact ⟨p, h1, h2, h3⟩
  · rintro ⟨p, h1, h2, h3⟩; exact ⟨p, ⟨h1, h2⟩, h3⟩

/-- a channel accepted by the decision loop is one the user is not yet on -/
theorem accepted_not_member (w : World) (n : Str) :
    ∀ (ds : List (Bool × Bool)) (chs : List Str), DecOK w n ds chs →
      ∀ ch, ch ∈ accepted ds chs → w.memOf ch n = false := by
  intro ds
  induction ds with
  | nil => intro chs _ ch h; simp [accepted] at h
  | cons d ds ih =>
    intro chs hd ch hch
    obtain ⟨j, cr⟩ := d
    cases chs with
    | nil => simp [accepted] at hch
    | cons a rest =>
      rw [accepted_cons] at hch
      obtain ⟨hd1, hd2⟩ := hd
      cases j with
      | false => exact ih rest hd2 ch hch
      | true =>
        simp only [↓reduceIte, List.mem_cons] at hch
        rcases hch with rfl | hch
        · have := hd1 rfl
          cases cr with
          | true =>
            simp only [↓reduceIte] at this
            exact World.memOf_of_none this n
          | false =>
            simp only [Bool.false_eq_true, ↓reduceIte] at this
            obtain ⟨C0, hC0, hnc⟩ := this
            rw [World.memOf_of_lookup hC0]; exact hnc
        · exact ih rest hd2 ch hch

/-- what the announcement loop of JOIN queues: for every accepted channel, one line to every member
    of the channel OTHER than the joiner -/
def joinQueue {β : Type} (w : World) (n : Str) (line : Str → β) (acc : List Str) : List (Nat × β) :=
  acc.flatMap (fun ch => ((members w ch).filter (· != n)).map (fun m => (ownerOf w m, line ch)))

/-- what the joiner itself is sent for the accepted channel `ch`: the JOIN line, the topic (332) if one
    is set, and the NAMES reply of the channel -/
def joinBurst (cfg : Cfg) (c : Nat) (w : World) (ch : Str) : List Str :=
  match Map.lookup ch w.channels with
  | some C =>
    C07.joinLine (({ w := w } : Ctx).conn c).source ch ::
      ((match C.topic with
        | some t => [srvLine cfg (RplTopic332 (({ w := w } : Ctx).conn c).clientName ch t.topic)]
        | none => []) ++
       (sendNamesFromChannel cfg c ch C true { w := w }).direct)
  | none => []

theorem joinAnnounce_eq (cfg : Cfg) (c : Nat) (nick : Str) :
    ∀ (ds : List (Bool × Bool)) (chs : List Str) (x : Ctx), MemInv x.w →
      (∀ ch, ch ∈ accepted ds chs → Map.contains ch x.w.channels = true) →
      joinAnnounce cfg c nick ds chs x =
        { w := x.w
          direct := x.direct ++ (accepted ds chs).flatMap (joinBurst cfg c x.w)
          queued := x.queued ++ joinQueue x.w nick (C07.joinLine (x.conn c).source) (accepted ds chs) } := by
  intro ds
  induction ds with
  | nil =>
    intro chs x _ _
    have e : joinAnnounce cfg c nick [] chs x = x := by cases chs <;> rfl
    rw [e]; simp [accepted, joinQueue]
  | cons d ds ih =>
    intro chs x h hex
    obtain ⟨j, cr⟩ := d
    cases chs with
    | nil =>
      have e : joinAnnounce cfg c nick ((j, cr) :: ds) [] x = x := rfl
      rw [e]; simp [accepted, joinQueue]
    | cons chn chs =>
      rw [joinAnnounce_cons, accepted_cons]
      cases j with
      | false =>
        have e : announceOne cfg c nick false chn x = x := rfl
        rw [e]
        simp only [Bool.false_eq_true, ↓reduceIte]
        exact ih chs x h (fun ch hch => hex ch (by rw [accepted_cons]; exact hch))
      | true =>
        simp only [↓reduceIte]
        have hchn : Map.contains chn x.w.channels = true :=
          hex chn (by rw [accepted_cons]; exact List.mem_cons_self)
        obtain ⟨C, hC⟩ := (Map.contains_iff _ _).mp hchn
        have hmem := h.keys_are_users hC
        have e : announceOne cfg c nick true chn x = joinAnnounce cfg c nick [(true, cr)] [chn] x := rfl
        have key := C07.joinAnnounce_single cfg c nick chn cr x C hC hmem
        obtain ⟨x1, hx1⟩ : ∃ x1, x1 = joinAnnounce cfg c nick [(true, cr)] [chn] x := ⟨_, rfl⟩
        rw [e, ← hx1]
        rw [key] at hx1
        have hw : x1.w = x.w := by rw [hx1]
        have hconn : x1.conn c = x.conn c := by unfold Ctx.conn; rw [hw]
        rw [ih chs x1 (by rw [hw]; exact h)
          (fun ch hch => by
            rw [hw]; exact hex ch (by rw [accepted_cons]; exact List.mem_cons_of_mem _ hch))]
        rw [hconn]
        subst hx1
        simp only [List.flatMap_cons, joinQueue, List.append_assoc, joinBurst, hC,
          ownerOf_users_eq, C07.joinLine_eq, Irc.srvLine_eq, C07.srvLine, members_of_lookup hC]
        rfl

theorem conn_of_frame {x y : Ctx} (f : Frame x.w y.w) (c : Nat) : y.conn c = x.conn c := by
  unfold Ctx.conn World.conn?
  rw [f.conns]

/-- `processJoin` in closed form (for the user `n` of a registered connection) -/
theorem processJoin_closed {cfg : Cfg} {c : Nat} {channels : List Str} {keys : Option (List Str)} {x : Ctx}
    {n : Str} {u : User} (h : InvCore x.w) (hn : (x.conn c).nick = some n)
    (hu : Map.lookup n x.w.users = some u) :
    let ds := joinDecisions cfg c channels keys x n u
    let errs := (joinDecide cfg x.w (x.conn c) n u.invitedTo channels (joinKeyList keys)
      u.channels.length).2.1
    let y := processJoin cfg c channels keys x
    MemInv y.w ∧ Frame x.w y.w ∧
    (∀ ch m, y.w.memOf ch m = (x.w.memOf ch m || (decide (m = n) && joined ds channels ch))) ∧
    y.direct = x.direct ++ errs.map (srvLine cfg) ++ (accepted ds channels).flatMap (joinBurst cfg c y.w) ∧
    y.queued = x.queued ++ joinQueue y.w n (C07.joinLine (x.conn c).source) (accepted ds channels) := by
  intro ds errs y
  have hM := InvCore.memInv h
  have hdec : DecOK x.w n ds channels :=
    joinDecide_ok cfg x.w (x.conn c) n u.invitedTo channels (joinKeyList keys) u.channels.length
  obtain ⟨h1, f1, e1⟩ := joinApply_inv x.w n ds channels x.w hdec hM
    ((Map.contains_iff _ _).mpr ⟨u, hu⟩) (JoinInv.init x.w n)
  have hy : y = joinAnnounce cfg c n ds channels
      ((errs.foldl (fun x e => x.reply cfg e) x).modifyW (joinApply n ds channels)) := by
    show processJoin cfg c channels keys x = _
    rw [Memb.processJoin_eq, hn]
    dsimp only
    rw [hu]
  have hw1 : ((errs.foldl (fun x e => x.reply cfg e) x).modifyW (joinApply n ds channels)).w =
      joinApply n ds channels x.w := by
    simp only [Ctx.modifyW_w, reply_foldl_w]
  have hex : ∀ ch, ch ∈ accepted ds channels →
      Map.contains ch (joinApply n ds channels x.w).channels = true := by
    intro ch hch
    have : (joinApply n ds channels x.w).memOf ch n = true := by
      rw [e1, (mem_accepted_iff _ _ _).mp hch]; simp
    obtain ⟨C, hC, _⟩ := (World.memOf_iff _ _ _).mp this
    exact (Map.contains_iff _ _).mpr ⟨C, hC⟩
  have hann := joinAnnounce_eq cfg c n ds channels
    ((errs.foldl (fun x e => x.reply cfg e) x).modifyW (joinApply n ds channels))
    (by rw [hw1]; exact h1) (by rw [hw1]; exact hex)
  rw [← hy, hw1] at hann
  have hyw : y.w = joinApply n ds channels x.w := by rw [hann]
  have hconn : ((errs.foldl (fun x e => x.reply cfg e) x).modifyW (joinApply n ds channels)).conn c =
      x.conn c := by
    unfold Ctx.conn World.conn?
    rw [hw1, f1.conns]
  rw [hconn] at hann
  refine ⟨by rw [hyw]; exact h1, by rw [hyw]; exact f1, by rw [hyw]; exact e1, ?_, ?_⟩
  · rw [hyw, hann]
    simp only [Ctx.modifyW_direct, C07.foldl_reply, List.append_assoc]
    congr 2
    apply List.map_congr_left
    intro e _
    rw [Irc.srvLine_eq]; rfl
  · rw [hyw, hann]
    simp only [Ctx.modifyW_queued, C07.foldl_reply]

/-- the world after a JOIN is the result of the insert loop -/
theorem processJoin_w {cfg : Cfg} {c : Nat} {channels : List Str} {keys : Option (List Str)} {x : Ctx}
    {n : Str} {u : User} (h : InvCore x.w) (hn : (x.conn c).nick = some n)
    (hu : Map.lookup n x.w.users = some u) :
    (processJoin cfg c channels keys x).w =
      joinApply n (joinDecisions cfg c channels keys x n u) channels x.w := by
  have hM := InvCore.memInv h
  have hdec : DecOK x.w n (joinDecisions cfg c channels keys x n u) channels :=
    joinDecide_ok cfg x.w (x.conn c) n u.invitedTo channels (joinKeyList keys) u.channels.length
  obtain ⟨h1, _, e1⟩ := joinApply_inv x.w n _ channels x.w hdec hM
    ((Map.contains_iff _ _).mpr ⟨u, hu⟩) (JoinInv.init x.w n)
  rw [Memb.processJoin_eq, hn]
  dsimp only
  rw [hu]
  dsimp only
  rw [joinAnnounce_w]
  · simp only [Ctx.modifyW_w, reply_foldl_w]
  · simp only [Ctx.modifyW_w, reply_foldl_w]; exact h1
  · simp only [Ctx.modifyW_w, reply_foldl_w]
    intro ch hj
    have : (joinApply n (joinDecisions cfg c channels keys x n u) channels x.w).memOf ch n = true := by
      rw [e1, hj]; simp
    obtain ⟨C, hC, _⟩ := (World.memOf_iff _ _ _).mp this
    exact (Map.contains_iff _ _).mpr ⟨C, hC⟩

/-- JOIN of one existing channel that is accepted: the member list grows by the joiner at the end -/
theorem processJoin_single_members {cfg : Cfg} {c : Nat} {ch : Str} {keys : Option (List Str)} {x : Ctx}
    {n : Str} {u : User} (h : InvCore x.w) (hn : (x.conn c).nick = some n)
    (hu : Map.lookup n x.w.users = some u) {C : Channel} (hC : Map.lookup ch x.w.channels = some C)
    (hch : ch ∈ accepted (joinDecisions cfg c [ch] keys x n u) [ch]) :
    accepted (joinDecisions cfg c [ch] keys x n u) [ch] = [ch] ∧
    n ∉ members x.w ch ∧
    members (processJoin cfg c [ch] keys x).w ch = members x.w ch ++ [n] := by
  have hdec : DecOK x.w n (joinDecisions cfg c [ch] keys x n u) [ch] :=
    joinDecide_ok cfg x.w (x.conn c) n u.invitedTo [ch] (joinKeyList keys) u.channels.length
  have hnot := accepted_not_member x.w n _ _ hdec ch hch
  rw [World.memOf_of_lookup hC] at hnot
  have hds : ∃ j, joinDecisions cfg c [ch] keys x n u = [(j, false)] := by
    unfold joinDecisions
    rw [C07.joinDecide_cons]
    simp only [C07.joinDecide_nil]
    refine ⟨(C07.Spec.decideOne cfg x.w (x.conn c).source n (x.conn c).clientName u.invitedTo ch
      (joinKeyList keys).head?.join u.channels.length).join, ?_⟩
    simp [C07.Spec.decideOne, hC]
  obtain ⟨j, hj⟩ := hds
  rw [hj] at hch ⊢
  rw [accepted_cons] at hch ⊢
  cases j with
  | false => simp [accepted] at hch
  | true =>
    have hnk : n ∉ Map.keys C.users := fun hk => by
      rw [Map.contains_of_mem_keys hk] at hnot; cases hnot
    refine ⟨by simp [accepted], by rw [members_of_lookup hC]; exact hnk, ?_⟩
    have hw := processJoin_w (cfg := cfg) (channels := [ch]) (keys := keys) h hn hu
    rw [hj, C07.joinApply_single n ch x.w C hC] at hw
    have : Map.lookup ch (processJoin cfg c [ch] keys x).w.channels = some (C.addUser n) := by
      rw [hw]; simp
    rw [members_of_lookup this, members_of_lookup hC, C07.addUser_users]
    exact C07.keys_insert_of_lookup_none _ _ _ ((Map.contains_false_iff _ _).mp hnot)

/-- the NAMES reply for channel `ch` carrying the `(prefix, nick)` entries `es`: 353 lines with 20 entries
    each, then 366 -/
def namesReply (cfg : Cfg) (client : Str) (secret : Bool) (ch : Str) (es : List (Str × Str)) : List Str :=
  (chunks 20 es).map (fun chunk =>
    srvLine cfg (RplNameReply353 client (if secret then ['@'] else ['=']) ch chunk)) ++
  [srvLine cfg (RplEndOfNames366 client ch)]

/-- the burst the joiner gets, spelled out: the names carried by its 353 lines are exactly the member
    list of the channel (the joiner is a member, so it also sees the invisible members) -/
theorem joinBurst_names {cfg : Cfg} {c : Nat} {w : World} (h : InvCore w) {ch : Str} {C : Channel}
    (hC : Map.lookup ch w.channels = some C) {n : Str}
    (hn : (({ w := w } : Ctx).conn c).nick = some n) (hmem : Map.contains n C.users = true)
    (hne : ∀ m, Map.contains m C.users = true → m ≠ []) :
    let cn := ({ w := w } : Ctx).conn c
    let es := C04.namesEntries w (some n) cn.multiPrefix C
    joinBurst cfg c w ch = C07.joinLine cn.source ch ::
      ((match C.topic with
        | some t => [srvLine cfg (RplTopic332 cn.clientName ch t.topic)]
        | none => []) ++ namesReply cfg cn.clientName C.modes.secret ch es) ∧
    es.map (·.2) = members w ch := by
  intro cn es
  obtain ⟨o1, o2⟩ := C04.names_output (cfg := cfg) (c := c) (chname := ch) (C := C) (theEnd := true)
    (x := { w := w }) hne
  rw [hn] at o1 o2
  have hon : C04.onChannel (some n) C = true := by simp [C04.onChannel, hmem]
  constructor
  · unfold joinBurst
    rw [hC]
    dsimp only
    rw [o1, hon]
    simp only [Bool.or_true, ↓reduceIte, List.nil_append, namesReply]
    rfl
  · rw [members_of_lookup hC]
    exact o2.trans (C04.names_view_member h hC hmem)

/-! ## 3. KICK -/

/-- the victims of `KICK channel kickUsers` issued on connection `c`: the selection the handler makes
    when the issuer is a member of rank half-operator or above, nobody otherwise
    (characterised by `mem_kickedOf_iff`) -/
def kickedOf (x : Ctx) (c : Nat) (channel : Str) (kickUsers : List Str) : List Str :=
  match (x.conn c).nick with
  | none => []
  | some n =>
    match Map.lookup channel x.w.channels with
    | none => []
    | some C =>
      match Map.lookup n C.users with
      | none => []
      | some chum =>
        if chum.isHalfOperator then
          (kickSelect (x.conn c).clientName channel C chum.isOnlyHalfOperator kickUsers []).1
        else []

/-- what a KICK queues: for every victim in turn, its KICK line to every member REMAINING after all the
    kicks of the command (`w'` = world after), then to the victim itself -/
def kickQueue {β : Type} (w w' : World) (channel : Str) (line : Str → β) (kicked : List Str) :
    List (Nat × β) :=
  kicked.flatMap (fun v => (members w' channel ++ [v]).map (fun m => (ownerOf w m, line v)))

theorem kickLine_inj (src ch : Str) (comment : Option Str) {v v' : Str}
    (h : kickLine src ch v comment = kickLine src ch v' comment) : v = v' := by
  unfold kickLine at h
  simp only [List.append_assoc] at h
  have h1 := List.append_cancel_left h
  have h2 := List.append_cancel_left h1
  have h3 := List.append_cancel_left h2
  have h4 := List.append_cancel_left h3
  have h5 := List.append_cancel_left h4
  exact List.append_cancel_right h5

theorem mem_kickedOf_iff {x : Ctx} {c : Nat} {n : Str} (hn : (x.conn c).nick = some n)
    (channel : Str) (kickUsers : List Str) (v : Str) :
    v ∈ kickedOf x c channel kickUsers ↔ v ∈ kickUsers ∧ KickVictim x.w channel n v := by
  unfold kickedOf KickVictim
  rw [hn]
  dsimp only
  cases hC : Map.lookup channel x.w.channels with
  | none =>
    dsimp only
    constructor
    · intro hv; cases hv
    · rintro ⟨_, C, _, _, hC', _⟩; cases hC'
  | some C =>
    dsimp only
    cases hcn : Map.lookup n C.users with
    | none =>
      dsimp only
      constructor
      · intro hv; cases hv
      · rintro ⟨_, C', _, _, hC', hcn', _⟩; cases hC'; rw [hcn] at hcn'; cases hcn'
    | some chum =>
      dsimp only
      cases hho : chum.isHalfOperator with
      | false =>
        simp only [Bool.false_eq_true, ↓reduceIte]
        constructor
        · intro hv; cases hv
        · rintro ⟨_, C', _, _, hC', hcn', hh, _⟩
          cases hC'; rw [hcn] at hcn'; cases hcn'; rw [hho] at hh; cases hh
      | true =>
        simp only [↓reduceIte]
        rw [(Memb.kickSelect_spec (x.conn c).clientName channel C chum.isOnlyHalfOperator
          kickUsers [] List.nodup_nil).2 v]
        constructor
        · rintro (a | ⟨a, cm, hcm, p1, p2⟩)
          · cases a
          · exact ⟨a, C, chum, cm, rfl, hcn, hho, hcm, p1, p2⟩
        · rintro ⟨a, C', cn', cm, hC', hcn', _, hcm, p1, p2⟩
          cases hC'; rw [hcn] at hcn'; cases hcn'
          exact Or.inr ⟨a, cm, hcm, p1, p2⟩

theorem kickedOf_nodup (x : Ctx) (c : Nat) (channel : Str) (kickUsers : List Str) :
    (kickedOf x c channel kickUsers).Nodup := by
  unfold kickedOf
  repeat' split
  all_goals first
    | exact List.nodup_nil
    | exact (Memb.kickSelect_spec _ _ _ _ _ [] List.nodup_nil).1

theorem processKick_queued {cfg : Cfg} {c : Nat} {channel : Str} {kickUsers : List Str}
    {comment : Option Str} {x : Ctx} {n : Str} (h : InvCore x.w) (hn : (x.conn c).nick = some n) :
    (processKick cfg c channel kickUsers comment x).queued = x.queued ++
      kickQueue x.w (processKick cfg c channel kickUsers comment x).w channel
        (fun v => kickLine (x.conn c).source channel v comment) (kickedOf x c channel kickUsers) := by
  obtain ⟨r1, r2, r3⟩ := C09.kick_requires_rank cfg c channel kickUsers comment x n hn
  cases hC : Map.lookup channel x.w.channels with
  | none =>
    rw [(r1 hC).2.1]
    simp [kickedOf, hn, hC, kickQueue]
  | some C =>
    cases hcn : Map.lookup n C.users with
    | none =>
      rw [(r2 C hC hcn).2.1]
      simp [kickedOf, hn, hC, hcn, kickQueue]
    | some chum =>
      cases hho : chum.isHalfOperator with
      | false =>
        rw [(r3 C chum hC hcn hho).2.1]
        simp [kickedOf, hn, hC, hcn, hho, kickQueue]
      | true =>
        have hq := (C09.kick_effect cfg c channel kickUsers comment x n C chum hn hC hcn hho
          (fun m hm => h.memberIsUser channel C m hC hm)).2.2.2.2.2
        rw [hq]
        simp only [kickedOf, hn, hC, hcn, hho, ↓reduceIte, kickQueue]
        rfl

/-! ## 4. NICK (re-proved here, see the header) -/

/-- an accepted NICK of a registered connection: the line (the received message re-rendered with the
    OLD source) is queued once to every user of the new world, in key order; nothing is written back -/
theorem processNick_queued {cfg : Cfg} {c : Nat} {new : Str} {msg : Message} {x : Ctx} {old : Str}
    {user : User} (ha : (x.conn c).authenticated = true) (hnick : (x.conn c).nick = some old)
    (hne : new ≠ old) (hfree : Map.contains new x.w.users = false)
    (hold : Map.lookup old x.w.users = some user) :
    let y := processNick cfg c new msg x
    y.queued = x.queued ++
      (Map.keys y.w.users).map (fun m => (ownerOf y.w m, msg.render (x.conn c).source)) ∧
    y.direct = x.direct := by
  intro y
  have e : y = _ := Reg.processNick_rename_eq (cfg := cfg) (msg := msg) ha hnick hne hfree hold
  rw [Ctx.sendAll_known _ _ _ (fun n hn => Map.contains_of_mem_keys hn)] at e
  rw [e]
  exact ⟨rfl, rfl⟩

theorem processNick_users {cfg : Cfg} {c : Nat} {new : Str} {msg : Message} {x : Ctx} {old : Str}
    {user : User} (h : InvCore x.w) (ha : (x.conn c).authenticated = true)
    (hnick : (x.conn c).nick = some old) (hne : new ≠ old)
    (hfree : Map.contains new x.w.users = false) (hold : Map.lookup old x.w.users = some user) :
    (processNick cfg c new msg x).w.users =
      Map.insert new { user with source := ((x.conn c).setNick new).source } (Map.erase old x.w.users) := by
  obtain ⟨chans', hW, _, _⟩ := Reg.processNick_rename_w (cfg := cfg) (msg := msg) h ha hnick hne hfree hold
  rw [hW]

/-- the recipients: the users of the new world are the old ones with `old` replaced by `new`; the owner
    of every nickname is unchanged, `new` is owned by the connection that owned `old` -/
theorem processNick_recipients {cfg : Cfg} {c : Nat} {new : Str} {msg : Message} {x : Ctx} {old : Str}
    {user : User} (h : InvCore x.w) (ha : (x.conn c).authenticated = true)
    (hnick : (x.conn c).nick = some old) (hne : new ≠ old)
    (hfree : Map.contains new x.w.users = false) (hold : Map.lookup old x.w.users = some user) (k : Str) :
    (k ∈ Map.keys (processNick cfg c new msg x).w.users ↔
      k = new ∨ (k ≠ old ∧ k ∈ Map.keys x.w.users)) ∧
    ownerOf (processNick cfg c new msg x).w new = ownerOf x.w old ∧
    (k ≠ old → k ≠ new → ownerOf (processNick cfg c new msg x).w k = ownerOf x.w k) := by
  have hu := processNick_users (cfg := cfg) (msg := msg) h ha hnick hne hfree hold
  refine ⟨?_, ?_, ?_⟩
  · rw [hu, Map.mem_keys_iff, Map.mem_keys_iff, Map.lookup_insert]
    by_cases e1 : new = k
    · subst e1; simp
    · have e1' : ¬ k = new := fun e => e1 e.symm
      rw [if_neg e1, Map.lookup_erase]
      by_cases e2 : old = k
      · subst e2; simp [e1']
      · have e2' : ¬ k = old := fun e => e2 e.symm
        simp [e1', e2, e2']
  · unfold ownerOf
    rw [hu, Map.lookup_insert_eq, hold]
    rfl
  · intro h1 h2
    unfold ownerOf
    rw [hu, Map.lookup_insert_ne _ _ _ _ (Ne.symm h2), Map.lookup_erase_ne _ _ _ (Ne.symm h1)]

/-- a registered NICK that does not rename (own nickname, or nickname in use) queues nothing -/
theorem processNick_noop_queued {cfg : Cfg} {c : Nat} {new : Str} {msg : Message} {x : Ctx} {old : Str}
    (ha : (x.conn c).authenticated = true) (hnick : (x.conn c).nick = some old)
    (hno : new = old ∨ Map.contains new x.w.users = true) :
    (processNick cfg c new msg x).queued = x.queued ∧ (processNick cfg c new msg x).w = x.w := by
  by_cases hne : new = old
  · have : processNick cfg c new msg x = x := by
      unfold processNick
      simp only [ha, Bool.not_true, Bool.false_eq_true, ↓reduceIte, hnick, hne, bne_self_eq_false]
    rw [this]; exact ⟨rfl, rfl⟩
  · have hc : Map.contains new x.w.users = true := hno.elim (fun e => absurd e hne) id
    have hb : (new != old) = true := by simpa using hne
    unfold processNick
    simp only [ha, Bool.not_true, Bool.false_eq_true, ↓reduceIte, hnick, hb, hc, Ctx.reply_w,
      Ctx.reply_queued, and_self]

/-- the NICK line is canonical when the client sent exactly `NICK <new>` -/
theorem nick_line_canonical (msg : Message) (src new : Str) (hc : msg.command = str "NICK")
    (hp : msg.params = [new])
    (hplain : (new.any (fun ch => ch == ':' || ch == ' ' || ch == '\t') || new.isEmpty) = false) :
    msg.render src = nickLine src new := by
  unfold Message.render nickLine
  rw [hc, hp]
  simp only [renderParams, hplain, Bool.false_eq_true, ↓reduceIte]
  simp [str]

/-! ## membership / multiplicity in the JOIN and KICK queues -/

theorem mem_joinQueue_iff {β : Type} (w : World) (n : Str) (line : Str → β) (acc : List Str) (o : Nat)
    (l : β) :
    (o, l) ∈ joinQueue w n line acc ↔
      ∃ ch, ch ∈ acc ∧ l = line ch ∧ ∃ m, m ∈ members w ch ∧ m ≠ n ∧ ownerOf w m = o := by
  simp only [joinQueue, List.mem_flatMap, List.mem_map, List.mem_filter, bne_iff_ne, ne_eq,
    Prod.mk.injEq]
  constructor
  · rintro ⟨ch, hch, m, ⟨hm, hne⟩, ho, hl⟩; exact ⟨ch, hch, hl.symm, m, hm, hne, ho⟩
  · rintro ⟨ch, hch, hl, m, hm, hne, ho⟩; exact ⟨ch, hch, m, ⟨hm, hne⟩, ho, hl.symm⟩

theorem joinLine_inj (src : Str) {ch ch' : Str} (h : C07.joinLine src ch = C07.joinLine src ch') :
    ch = ch' := by
  unfold C07.joinLine at h
  simp only [List.append_assoc] at h
  exact List.append_cancel_left (List.append_cancel_left (List.append_cancel_left h))

/-- every member other than the joiner gets the JOIN line of `ch` as often as `ch` was accepted (once,
    unless the same channel was listed and accepted several times in one JOIN) -/
theorem count_joinQueue {β : Type} [BEq β] [LawfulBEq β] {w : World} (h : InvCore w) (n : Str)
    (line : Str → β) (hinj : ∀ a b, line a = line b → a = b) {ch m : Str} (hm : m ∈ members w ch)
    (hne : m ≠ n) (acc : List Str) :
    List.count (ownerOf w m, line ch) (joinQueue w n line acc) = List.count ch acc := by
  induction acc with
  | nil => simp [joinQueue]
  | cons a rest ih =>
    have hstep : joinQueue w n line (a :: rest) =
        ((members w a).filter (· != n)).map (fun m' => (ownerOf w m', line a)) ++
          joinQueue w n line rest := by simp [joinQueue]
    rw [hstep, List.count_append, ih, List.count_cons]
    by_cases e : a = ch
    · subst e
      have h1 : List.count (ownerOf w m, line a)
          (((members w a).filter (· != n)).map (fun m' => (ownerOf w m', line a))) = 1 := by
        apply count_map_of_inj_on (fun m' => (ownerOf w m', line a)) _ m
          ((members_nodup h a).filter _) _ (List.mem_filter.mpr ⟨hm, by simpa using hne⟩)
        intro b hb he
        simp only [Prod.mk.injEq, and_true] at he
        exact ownerOf_inj h (members_are_users (InvCore.memInv h) (List.mem_filter.mp hb).1)
          (members_are_users (InvCore.memInv h) hm) he
      rw [h1]; simp; omega
    · have h0 : List.count (ownerOf w m, line ch)
          (((members w a).filter (· != n)).map (fun m' => (ownerOf w m', line a))) = 0 := by
        rw [List.count_eq_zero]
        intro hmem
        obtain ⟨b, _, he⟩ := List.mem_map.mp hmem
        simp only [Prod.mk.injEq] at he
        exact e (hinj _ _ he.2)
      rw [h0]; simp [e]

theorem mem_kickQueue_iff {β : Type} (w w' : World) (channel : Str) (line : Str → β) (kicked : List Str)
    (o : Nat) (l : β) :
    (o, l) ∈ kickQueue w w' channel line kicked ↔
      ∃ v, v ∈ kicked ∧ l = line v ∧ ∃ m, (m ∈ members w' channel ∨ m = v) ∧ ownerOf w m = o := by
  simp only [kickQueue, List.mem_flatMap, List.mem_map, List.mem_append, List.mem_singleton,
    Prod.mk.injEq]
  constructor
  · rintro ⟨v, hv, m, hm, ho, hl⟩; exact ⟨v, hv, hl.symm, m, hm, ho⟩
  · rintro ⟨v, hv, hl, m, hm, ho⟩; exact ⟨v, hv, m, hm, ho, hl.symm⟩

/-! ## 5. the client side: announcements and the reconstructed roster -/

/-- what a client learns about channel rosters, in structured form -/
inductive Ann
  /-- the NAMES reply for `ch` (353.. 366) carrying these nicknames -/
  | names (ch : Str) (nicks : List Str)
  /-- `:<nick>!.. JOIN ch` -/
  | join (ch nick : Str)
  /-- `:<nick>!.. PART ch` -/
  | part (ch nick : Str)
  /-- `:.. KICK ch victim` -/
  | kick (ch victim : Str)
  /-- `:<old>!.. NICK new` -/
  | nick (old new : Str)
  deriving DecidableEq, Repr

/-- what the rendering of an announcement needs besides the announcement itself -/
structure Wire where
  /-- source (`nick!~user@host`) of the acting connection, before the command -/
  src : Str
  /-- the PART reason -/
  reason : Option Str := none
  /-- the KICK comment -/
  comment : Option Str := none

/-- the line that carries an announcement (`names` is carried by several lines, see `namesReply`) -/
def Ann.render (wr : Wire) : Ann → Str
  | .join ch _ => C07.joinLine wr.src ch
  | .part ch _ => partLine wr.src ch wr.reason
  | .kick ch v => kickLine wr.src ch v wr.comment
  | .nick _ new => nickLine wr.src new
  | .names _ _ => []

/-- how a client that follows channel `ch` updates its roster -/
def applyAnn (ch : Str) (roster : List Str) : Ann → List Str
  | .names c ns => if c = ch then ns else roster
  | .join c n => if c = ch then (if n ∈ roster then roster else roster ++ [n]) else roster
  | .part c n => if c = ch then roster.filter (· != n) else roster
  | .kick c v => if c = ch then roster.filter (· != v) else roster
  | .nick o n => roster.map (fun m => if m = o then n else m)

def applyAnns (ch : Str) (roster : List Str) (as : List Ann) : List Str := as.foldl (applyAnn ch) roster

theorem applyAnns_nil (ch : Str) (r : List Str) : applyAnns ch r [] = r := rfl
theorem applyAnns_cons (ch : Str) (r : List Str) (a : Ann) (as : List Ann) :
    applyAnns ch r (a :: as) = applyAnns ch (applyAnn ch r a) as := rfl
theorem applyAnns_append (ch : Str) (r : List Str) (as bs : List Ann) :
    applyAnns ch r (as ++ bs) = applyAnns ch (applyAnns ch r as) bs := by
  simp [applyAnns, List.foldl_append]

/-- announcements that only remove: PART and KICK lines -/
def Ann.isRemoval : Ann → Bool
  | .part _ _ => true
  | .kick _ _ => true
  | _ => false

/-- announcements that only add to channel `ch`: JOIN lines, and NAMES replies of OTHER channels -/
def Ann.isAddition (ch : Str) : Ann → Bool
  | .join _ _ => true
  | .names c _ => c != ch
  | _ => false

theorem mem_applyAnns_removals (ch : Str) :
    ∀ (as : List Ann) (r : List Str), (∀ a, a ∈ as → a.isRemoval = true) →
      ∀ j, j ∈ applyAnns ch r as ↔ j ∈ r ∧ Ann.part ch j ∉ as ∧ Ann.kick ch j ∉ as := by
  intro as
  induction as with
  | nil => intro r _ j; simp [applyAnns]
  | cons a as ih =>
    intro r hall j
    rw [applyAnns_cons, ih _ (fun b hb => hall b (List.mem_cons_of_mem _ hb))]
    have ha := hall a List.mem_cons_self
    cases a with
    | names c ns => cases ha
    | join c k => cases ha
    | nick o k => cases ha
    | part c k =>
      simp only [applyAnn, List.mem_cons, not_or]
      by_cases e : c = ch
      · subst e
        simp only [↓reduceIte, List.mem_filter, bne_iff_ne, ne_eq, Ann.part.injEq, true_and]
        constructor
        · rintro ⟨⟨h1, h2⟩, h3, h4⟩; exact ⟨h1, ⟨h2, h3⟩, by simp, h4⟩
        · rintro ⟨h1, ⟨h2, h3⟩, _, h4⟩; exact ⟨⟨h1, h2⟩, h3, h4⟩
      · have e' : ¬ ch = c := fun x => e x.symm
        simp [e, e']
    | kick c k =>
      simp only [applyAnn, List.mem_cons, not_or]
      by_cases e : c = ch
      · subst e
        simp only [↓reduceIte, List.mem_filter, bne_iff_ne, ne_eq, Ann.kick.injEq, true_and]
        constructor
        · rintro ⟨⟨h1, h2⟩, h3, h4⟩; exact ⟨h1, ⟨by simp, h3⟩, h2, h4⟩
        · rintro ⟨h1, ⟨_, h3⟩, h2, h4⟩; exact ⟨⟨h1, h2⟩, h3, h4⟩
      · have e' : ¬ ch = c := fun x => e x.symm
        simp [e, e']

theorem mem_applyAnns_additions (ch : Str) :
    ∀ (as : List Ann) (r : List Str), (∀ a, a ∈ as → a.isAddition ch = true) →
      ∀ j, j ∈ applyAnns ch r as ↔ j ∈ r ∨ Ann.join ch j ∈ as := by
  intro as
  induction as with
  | nil => intro r _ j; simp [applyAnns]
  | cons a as ih =>
    intro r hall j
    rw [applyAnns_cons, ih _ (fun b hb => hall b (List.mem_cons_of_mem _ hb))]
    have ha := hall a List.mem_cons_self
    cases a with
    | part c k => cases ha
    | kick c k => cases ha
    | nick o k => cases ha
    | names c ns =>
      have e : ¬ c = ch := by simpa [Ann.isAddition] using ha
      simp [applyAnn, e]
    | join c k =>
      simp only [applyAnn, List.mem_cons]
      by_cases e : c = ch
      · subst e
        simp only [↓reduceIte, Ann.join.injEq, true_and]
        by_cases hk : k ∈ r
        · simp only [hk, ↓reduceIte]
          constructor
          · rintro (h1 | h1); exact Or.inl h1; exact Or.inr (Or.inr h1)
          · rintro (h1 | h1 | h1)
            · exact Or.inl h1
            · subst h1; exact Or.inl hk
            · exact Or.inr h1
        · simp only [hk, ↓reduceIte, List.mem_append, List.mem_singleton]
          constructor
          · rintro ((h1 | h1) | h1)
            · exact Or.inl h1
            · exact Or.inr (Or.inl h1)
            · exact Or.inr (Or.inr h1)
          · rintro (h1 | h1 | h1)
            · exact Or.inl (Or.inl h1)
            · exact Or.inl (Or.inr h1)
            · exact Or.inr h1
      · have e' : ¬ ch = c := fun x => e x.symm
        simp [e, e']

/-- the same NICK announcement received once or several times -/
theorem mem_applyAnns_nick (ch : Str) (o k : Str) (hok : o ≠ k) :
    ∀ (as : List Ann) (r : List Str), (∀ a, a ∈ as → a = Ann.nick o k) → as ≠ [] →
      applyAnns ch r as = r.map (fun m => if m = o then k else m) := by
  intro as
  induction as with
  | nil => intro r _ h; exact absurd rfl h
  | cons a as ih =>
    intro r hall _
    rw [applyAnns_cons, hall a List.mem_cons_self]
    by_cases hn : as = []
    · subst hn; rfl
    · rw [ih _ (fun b hb => hall b (List.mem_cons_of_mem _ hb)) hn]
      simp only [applyAnn, List.map_map]
      apply List.map_congr_left
      intro m _
      simp only [Function.comp]
      by_cases e : m = o
      · simp [e, Ne.symm hok]
      · simp [e]

/-! ### the four membership-changing commands and what they deliver -/

inductive MCmd
  | join (chs : List Str) (keys : Option (List Str))
  | part (chs : List Str) (reason : Option Str)
  | kick (ch : Str) (users : List Str) (comment : Option Str)
  | nick (new : Str) (msg : Message)

def MCmd.run (cfg : Cfg) (c : Nat) : MCmd → Ctx → Ctx
  | .join chs keys, x => processJoin cfg c chs keys x
  | .part chs reason, x => processPart cfg c chs reason x
  | .kick ch us comment, x => processKick cfg c ch us comment x
  | .nick new msg, x => processNick cfg c new msg x

/-- the nickname of connection `c` (`[]` if it has none) -/
def actor (x : Ctx) (c : Nat) : Str := ((x.conn c).nick).getD []

/-- the accepted channels of `JOIN chs keys` on connection `c` -/
def acceptedOf (cfg : Cfg) (c : Nat) (chs : List Str) (keys : Option (List Str)) (x : Ctx) : List Str :=
  match (x.conn c).nick with
  | none => []
  | some n =>
    match Map.lookup n x.w.users with
    | none => []
    | some u => accepted (joinDecisions cfg c chs keys x n u) chs

/-- a registered NICK renames iff the nickname differs from the own one and is not in use -/
def nickAccepted (x : Ctx) (c : Nat) (new : Str) : Bool :=
  new != actor x c && !(Map.contains new x.w.users)

/-- the structured announcements a command pushes into queues, with the receiving connection -/
def MCmd.queuedAnns (cfg : Cfg) (c : Nat) (cmd : MCmd) (x : Ctx) : List (Nat × Ann) :=
  match cmd with
  | .join chs keys =>
    joinQueue (processJoin cfg c chs keys x).w (actor x c) (fun ch => Ann.join ch (actor x c))
      (acceptedOf cfg c chs keys x)
  | .part chs _ => partQueue x.w (actor x c) (fun ch => Ann.part ch (actor x c)) [] chs
  | .kick ch us comment =>
    kickQueue x.w (processKick cfg c ch us comment x).w ch (fun v => Ann.kick ch v) (kickedOf x c ch us)
  | .nick new msg =>
    if nickAccepted x c new then
      (Map.keys (processNick cfg c new msg x).w.users).map (fun m =>
        (ownerOf (processNick cfg c new msg x).w m, Ann.nick (actor x c) new))
    else []

/-- the structured announcements a command writes to the acting connection's own socket: for every
    accepted channel of a JOIN the JOIN line and the NAMES reply -/
def MCmd.directAnns (cfg : Cfg) (c : Nat) (cmd : MCmd) (x : Ctx) : List Ann :=
  match cmd with
  | .join chs keys =>
    (acceptedOf cfg c chs keys x).flatMap (fun ch =>
      [Ann.join ch (actor x c), Ann.names ch (members (processJoin cfg c chs keys x).w ch)])
  | _ => []

/-- everything connection `o` is told by one command issued on connection `c` -/
def MCmd.deliveredTo (cfg : Cfg) (c : Nat) (cmd : MCmd) (x : Ctx) (o : Nat) : List Ann :=
  (if o = c then cmd.directAnns cfg c x else []) ++
    ((cmd.queuedAnns cfg c x).filter (fun p => p.1 == o)).map (·.2)

/-- the line carrying a queued announcement of this command (`src` = source of the acting connection
    before the command); for NICK it is the received message re-rendered -/
def MCmd.line (cmd : MCmd) (src : Str) : Ann → Str :=
  match cmd with
  | .join _ _ => Ann.render { src := src }
  | .part _ reason => Ann.render { src := src, reason := reason }
  | .kick _ _ comment => Ann.render { src := src, comment := comment }
  | .nick _ msg => fun _ => msg.render src

theorem partQueue_map {β γ : Type} (w : World) (n : Str) (f : Str → β) (g : β → γ) :
    ∀ (chs seen : List Str), (partQueue w n f seen chs).map (fun p => (p.1, g p.2)) =
      partQueue w n (fun ch => g (f ch)) seen chs := by
  intro chs
  induction chs with
  | nil => intro seen; rfl
  | cons a rest ih =>
    intro seen
    simp only [partQueue, List.map_append, ih]
    congr 1
    split <;> simp

theorem joinQueue_map {β γ : Type} (w : World) (n : Str) (f : Str → β) (g : β → γ) (acc : List Str) :
    (joinQueue w n f acc).map (fun p => (p.1, g p.2)) = joinQueue w n (fun ch => g (f ch)) acc := by
  simp [joinQueue, List.map_flatMap]
  rfl

theorem kickQueue_map {β γ : Type} (w w' : World) (ch : Str) (f : Str → β) (g : β → γ)
    (kicked : List Str) :
    (kickQueue w w' ch f kicked).map (fun p => (p.1, g p.2)) =
      kickQueue w w' ch (fun v => g (f v)) kicked := by
  simp [kickQueue, List.map_flatMap]
  rfl

theorem acceptedOf_eq {cfg : Cfg} {c : Nat} {chs : List Str} {keys : Option (List Str)} {x : Ctx}
    {n : Str} {u : User} (hn : (x.conn c).nick = some n) (hu : Map.lookup n x.w.users = some u) :
    acceptedOf cfg c chs keys x = accepted (joinDecisions cfg c chs keys x n u) chs := by
  unfold acceptedOf; rw [hn]; dsimp only; rw [hu]

theorem actor_eq {x : Ctx} {c : Nat} {n : Str} (hn : (x.conn c).nick = some n) : actor x c = n := by
  unfold actor; rw [hn]; rfl

/-- the lines the handlers queue ARE the renderings of the structured announcements -/
theorem queued_eq_rendered {cfg : Cfg} {c : Nat} (cmd : MCmd) {x : Ctx} {n : Str} (h : InvCore x.w)
    (hl : Live x.w c) (ha : (x.conn c).authenticated = true) (hn : (x.conn c).nick = some n) :
    (cmd.run cfg c x).queued = x.queued ++
      (cmd.queuedAnns cfg c x).map (fun p => (p.1, cmd.line (x.conn c).source p.2)) := by
  obtain ⟨n', u, hn', hu, _⟩ := sender_of_auth h hl ha
  rw [hn] at hn'; cases hn'
  cases cmd with
  | join chs keys =>
    obtain ⟨_, _, _, _, hq⟩ := processJoin_closed (cfg := cfg) (channels := chs) (keys := keys) h hn hu
    simp only [MCmd.run, MCmd.queuedAnns, MCmd.line, actor_eq hn, acceptedOf_eq hn hu, joinQueue_map]
    exact hq
  | part chs reason =>
    simp only [MCmd.run, MCmd.queuedAnns, MCmd.line, actor_eq hn, partQueue_map]
    exact processPart_queued h hn
  | kick ch us comment =>
    simp only [MCmd.run, MCmd.queuedAnns, MCmd.line, kickQueue_map]
    exact processKick_queued h hn
  | nick new msg =>
    simp only [MCmd.run, MCmd.queuedAnns, MCmd.line, nickAccepted, actor_eq hn]
    by_cases hne : new = n
    · have := (processNick_noop_queued (cfg := cfg) (msg := msg) ha hn (Or.inl hne)).1
      rw [this]; simp [hne]
    · by_cases hc : Map.contains new x.w.users = true
      · have := (processNick_noop_queued (cfg := cfg) (msg := msg) ha hn (Or.inr hc)).1
        rw [this]; simp [hc]
      · have hc' : Map.contains new x.w.users = false := by simpa using hc
        have hb : (new != n) = true := by simpa using hne
        rw [(processNick_queued (cfg := cfg) (msg := msg) ha hn hne hc' hu).1]
        simp [hb, hc', List.map_map, Function.comp_def]

/-- user `m` is owned by connection `o` -/
def Obs (w : World) (o : Nat) (m : Str) : Prop := ∃ u, Map.lookup m w.users = some u ∧ u.owner = o

theorem Obs.ownerOf {w : World} {o : Nat} {m : Str} (h : Obs w o m) : ownerOf w m = o := by
  obtain ⟨u, hu, ho⟩ := h
  rw [ownerOf_of_lookup hu, ho]

theorem Obs.contains {w : World} {o : Nat} {m : Str} (h : Obs w o m) : Map.contains m w.users = true := by
  obtain ⟨u, hu, _⟩ := h
  exact (Map.contains_iff _ _).mpr ⟨u, hu⟩

theorem Obs.of_frame {w w' : World} (f : Frame w w') {o : Nat} {m : Str} (h : Obs w o m) : Obs w' o m := by
  obtain ⟨u, hu, ho⟩ := h
  obtain ⟨u', hu', _, ho', _⟩ := f.lookup_fwd hu
  exact ⟨u', hu', ho'.trans ho⟩

theorem Obs.of_frame_bwd {w w' : World} (f : Frame w w') {o : Nat} {m : Str} (h : Obs w' o m) :
    Obs w o m := by
  obtain ⟨u', hu', ho'⟩ := h
  obtain ⟨u, hu, _, ho, _⟩ := f.lookup_bwd hu'
  exact ⟨u, hu, ho.symm.trans ho'⟩

theorem Obs.unique {w : World} (h : InvCore w) {o : Nat} {m m' : Str} (h1 : Obs w o m) (h2 : Obs w o m') :
    m = m' := by
  obtain ⟨u, hu, ho⟩ := h1
  obtain ⟨v, hv, ho'⟩ := h2
  exact owner_inj h hu hv (ho.trans ho'.symm)

theorem mem_delivered {β : Type} (Q : List (Nat × β)) (o : Nat) (a : β) :
    a ∈ (Q.filter (fun p => p.1 == o)).map (·.2) ↔ (o, a) ∈ Q := by
  simp only [List.mem_map, List.mem_filter, beq_iff_eq]
  constructor
  · rintro ⟨⟨o', a'⟩, ⟨hp, rfl⟩, rfl⟩; exact hp
  · intro hp; exact ⟨(o, a), ⟨hp, rfl⟩, rfl⟩

/-- **roster step, PART** -/
theorem roster_part {cfg : Cfg} {c : Nat} {chs : List Str} {reason : Option Str} {x : Ctx} {n : Str}
    (h : InvCore x.w) (hl : Live x.w c) (ha : (x.conn c).authenticated = true)
    (hn : (x.conn c).nick = some n) (ch : Str) (o : Nat) (r : List Str)
    (hb : ∃ m, Obs x.w o m ∧ x.w.memOf ch m = true) (hr : ∀ k, k ∈ r ↔ x.w.memOf ch k = true) (k : Str) :
    k ∈ applyAnns ch r ((MCmd.part chs reason).deliveredTo cfg c x o) ↔
      (processPart cfg c chs reason x).w.memOf ch k = true := by
  obtain ⟨n', hn', e⟩ := part_membership_effect (cfg := cfg) (channels := chs) (reason := reason) h hl ha
  rw [hn] at hn'; cases hn'
  obtain ⟨m, hobs, hm⟩ := hb
  simp only [MCmd.deliveredTo, MCmd.directAnns, ite_self, List.nil_append, MCmd.queuedAnns, actor_eq hn]
  have hshape : ∀ a, (o, a) ∈ partQueue x.w n (fun ch => Ann.part ch n) [] chs →
      ∃ ch', a = Ann.part ch' n := by
    intro a ha'
    obtain ⟨ch', _, _, _, h4, _⟩ := (mem_partQueue_iff _ _ _ _ _ _ _).mp ha'
    exact ⟨ch', h4⟩
  rw [mem_applyAnns_removals ch _ r (by
    intro a ha'
    obtain ⟨ch', rfl⟩ := hshape a ((mem_delivered _ _ _).mp ha')
    rfl)]
  rw [mem_delivered, mem_delivered, hr, e]
  have hk : (o, Ann.kick ch k) ∉ partQueue x.w n (fun ch => Ann.part ch n) [] chs := by
    intro hq; obtain ⟨_, hq'⟩ := hshape _ hq; cases hq'
  have hp : (o, Ann.part ch k) ∈ partQueue x.w n (fun ch => Ann.part ch n) [] chs ↔
      (k = n ∧ ch ∈ chs ∧ x.w.memOf ch n = true) := by
    rw [mem_partQueue_iff]
    constructor
    · rintro ⟨ch', h1, _, h3, h4, _⟩
      cases h4
      exact ⟨rfl, h1, (mem_members_iff _ _ _).mp h3⟩
    · rintro ⟨rfl, h1, h3⟩
      exact ⟨ch, h1, List.not_mem_nil, (mem_members_iff _ _ _).mpr h3, rfl, m,
        (mem_members_iff _ _ _).mpr hm, hobs.ownerOf⟩
  rw [hp]
  constructor
  · rintro ⟨h1, h2, _⟩
    exact ⟨h1, fun ⟨h3, h4⟩ => h2 ⟨h4, h3, h4 ▸ h1⟩⟩
  · rintro ⟨h1, h2⟩
    exact ⟨h1, fun ⟨h3, h4, _⟩ => h2 ⟨h4, h3⟩, hk⟩

/-- **roster step, KICK** (any number of victims) -/
theorem roster_kick {cfg : Cfg} {c : Nat} {chn : Str} {us : List Str} {comment : Option Str} {x : Ctx}
    {n : Str} (h : InvCore x.w) (hl : Live x.w c) (ha : (x.conn c).authenticated = true)
    (hn : (x.conn c).nick = some n) (ch : Str) (o : Nat) (r : List Str)
    (haft : ∃ m, Obs (processKick cfg c chn us comment x).w o m ∧
      (processKick cfg c chn us comment x).w.memOf ch m = true)
    (hr : ∀ k, k ∈ r ↔ x.w.memOf ch k = true) (k : Str) :
    k ∈ applyAnns ch r ((MCmd.kick chn us comment).deliveredTo cfg c x o) ↔
      (processKick cfg c chn us comment x).w.memOf ch k = true := by
  obtain ⟨n', hn', _, f, e⟩ := kick_all (cfg := cfg) (channel := chn) (kickUsers := us) (comment := comment) h hl ha
  rw [hn] at hn'; cases hn'
  obtain ⟨m, hobs, hm⟩ := haft
  simp only [MCmd.deliveredTo, MCmd.directAnns, ite_self, List.nil_append, MCmd.queuedAnns]
  have hshape : ∀ a, (o, a) ∈ kickQueue x.w (processKick cfg c chn us comment x).w chn
      (fun v => Ann.kick chn v) (kickedOf x c chn us) → ∃ v, a = Ann.kick chn v := by
    intro a ha'
    obtain ⟨v, _, h2, _⟩ := (mem_kickQueue_iff _ _ _ _ _ _ _).mp ha'
    exact ⟨v, h2⟩
  rw [mem_applyAnns_removals ch _ r (by
    intro a ha'
    obtain ⟨v, rfl⟩ := hshape a ((mem_delivered _ _ _).mp ha')
    rfl)]
  rw [mem_delivered, mem_delivered, hr, e]
  have hp : (o, Ann.part ch k) ∉ kickQueue x.w (processKick cfg c chn us comment x).w chn
      (fun v => Ann.kick chn v) (kickedOf x c chn us) := by
    intro hq; obtain ⟨_, hq'⟩ := hshape _ hq; cases hq'
  have hkk : (o, Ann.kick ch k) ∈ kickQueue x.w (processKick cfg c chn us comment x).w chn
      (fun v => Ann.kick chn v) (kickedOf x c chn us) ↔ (ch = chn ∧ k ∈ kickedOf x c chn us) := by
    rw [mem_kickQueue_iff]
    constructor
    · rintro ⟨v, h1, h2, _⟩
      cases h2
      exact ⟨rfl, h1⟩
    · rintro ⟨rfl, h1⟩
      refine ⟨k, h1, rfl, m, Or.inl ((mem_members_iff _ _ _).mpr hm), ?_⟩
      rw [← ownerOf_frame f m]; exact hobs.ownerOf
  rw [hkk, mem_kickedOf_iff hn]
  constructor
  · rintro ⟨h1, _, h3⟩
    exact ⟨h1, fun ⟨h4, h5, h6⟩ => h3 ⟨h4, h5, h6⟩⟩
  · rintro ⟨h1, h2⟩
    exact ⟨h1, hp, fun ⟨h4, h5, h6⟩ => h2 ⟨h4, h5, h6⟩⟩

/-- **roster step, JOIN** (any channel list) -/
theorem roster_join {cfg : Cfg} {c : Nat} {chs : List Str} {keys : Option (List Str)} {x : Ctx} {n : Str}
    (h : InvCore x.w) (hl : Live x.w c) (ha : (x.conn c).authenticated = true)
    (hn : (x.conn c).nick = some n) (ch : Str) (o : Nat) (r : List Str)
    (hb : ∃ m, Obs x.w o m ∧ x.w.memOf ch m = true) (hr : ∀ k, k ∈ r ↔ x.w.memOf ch k = true) (k : Str) :
    k ∈ applyAnns ch r ((MCmd.join chs keys).deliveredTo cfg c x o) ↔
      (processJoin cfg c chs keys x).w.memOf ch k = true := by
  obtain ⟨n', u, hn', hu, hown⟩ := sender_of_auth h hl ha
  rw [hn] at hn'; cases hn'
  obtain ⟨h1, f1, e1, _, _⟩ := processJoin_closed (cfg := cfg) (channels := chs) (keys := keys) h hn hu
  obtain ⟨m, hobs, hm⟩ := hb
  have hobsn : Obs x.w c n := ⟨u, hu, hown⟩
  have hdec : DecOK x.w n (joinDecisions cfg c chs keys x n u) chs :=
    joinDecide_ok cfg x.w (x.conn c) n u.invitedTo chs (joinKeyList keys) u.channels.length
  have hnot := accepted_not_member x.w n _ _ hdec
  simp only [MCmd.deliveredTo, MCmd.directAnns, MCmd.queuedAnns, actor_eq hn, acceptedOf_eq hn hu]
  generalize hacc : accepted (joinDecisions cfg c chs keys x n u) chs = acc at hnot
  generalize hy : (processJoin cfg c chs keys x).w = yw at h1 f1 e1
  have hjoined : ∀ ch', Memb.joined (joinDecisions cfg c chs keys x n u) chs ch' = true ↔ ch' ∈ acc := by
    intro ch'; rw [← hacc, mem_accepted_iff]
  -- shape of what is delivered
  have hdir : ∀ a, a ∈ acc.flatMap (fun ch' => [Ann.join ch' n, Ann.names ch' (members yw ch')]) →
      ∃ ch', ch' ∈ acc ∧ (a = Ann.join ch' n ∨ a = Ann.names ch' (members yw ch')) := by
    intro a ha'
    obtain ⟨ch', h1', h2'⟩ := List.mem_flatMap.mp ha'
    simp only [List.mem_cons, List.not_mem_nil, or_false] at h2'
    exact ⟨ch', h1', h2'⟩
  have hque : ∀ a, (o, a) ∈ joinQueue yw n (fun ch' => Ann.join ch' n) acc →
      ∃ ch', ch' ∈ acc ∧ a = Ann.join ch' n := by
    intro a ha'
    obtain ⟨ch', h1', h2', _⟩ := (mem_joinQueue_iff _ _ _ _ _ _).mp ha'
    exact ⟨ch', h1', h2'⟩
  rw [mem_applyAnns_additions ch _ r (by
    intro a ha'
    rcases List.mem_append.mp ha' with ha' | ha'
    · split at ha'
      · rename_i hoc
        obtain ⟨ch', h1', h2'⟩ := hdir a ha'
        rcases h2' with rfl | rfl
        · rfl
        · have hmn : m = n := Obs.unique h hobs (hoc ▸ hobsn)
          have : ch' ≠ ch := by
            rintro rfl
            have := hnot ch' h1'
            rw [← hmn, hm] at this; cases this
          simpa [Ann.isAddition] using this
      · cases ha'
    · obtain ⟨ch', _, rfl⟩ := hque a ((mem_delivered _ _ _).mp ha')
      rfl)]
  rw [hr, e1, List.mem_append, mem_delivered]
  have key : ((Ann.join ch k ∈ if o = c then
        acc.flatMap (fun ch' => [Ann.join ch' n, Ann.names ch' (members yw ch')]) else []) ∨
      (o, Ann.join ch k) ∈ joinQueue yw n (fun ch' => Ann.join ch' n) acc) ↔ (k = n ∧ ch ∈ acc) := by
    constructor
    · rintro (hh | hh)
      · split at hh
        · obtain ⟨ch', h1', h2'⟩ := hdir _ hh
          rcases h2' with h2' | h2'
          · cases h2'; exact ⟨rfl, h1'⟩
          · cases h2'
        · cases hh
      · obtain ⟨ch', h1', h2'⟩ := hque _ hh
        cases h2'; exact ⟨rfl, h1'⟩
    · rintro ⟨rfl, hch⟩
      by_cases hoc : o = c
      · left
        rw [if_pos hoc]
        exact List.mem_flatMap.mpr ⟨ch, hch, List.mem_cons_self⟩
      · right
        refine (mem_joinQueue_iff _ _ _ _ _ _).mpr ⟨ch, hch, rfl, m, ?_, ?_, ?_⟩
        · rw [mem_members_iff, e1, hm]; rfl
        · rintro rfl
          exact hoc (hobs.ownerOf.symm.trans hobsn.ownerOf)
        · rw [ownerOf_frame f1]; exact hobs.ownerOf
  rw [key, ← hjoined]
  simp only [Bool.or_eq_true, Bool.and_eq_true, decide_eq_true_eq]

/-- **roster step, NICK** (by anybody, the observer itself included) -/
theorem roster_nick {cfg : Cfg} {c : Nat} {new : Str} {msg : Message} {x : Ctx} {n : Str}
    (h : InvCore x.w) (hl : Live x.w c) (ha : (x.conn c).authenticated = true)
    (hn : (x.conn c).nick = some n) (ch : Str) (o : Nat) (r : List Str)
    (haft : ∃ m, Obs (processNick cfg c new msg x).w o m ∧
      (processNick cfg c new msg x).w.memOf ch m = true)
    (hr : ∀ k, k ∈ r ↔ x.w.memOf ch k = true) (k : Str) :
    k ∈ applyAnns ch r ((MCmd.nick new msg).deliveredTo cfg c x o) ↔
      (processNick cfg c new msg x).w.memOf ch k = true := by
  obtain ⟨n', u, hn', hu, _⟩ := sender_of_auth h hl ha
  rw [hn] at hn'; cases hn'
  simp only [MCmd.deliveredTo, MCmd.directAnns, ite_self, List.nil_append, MCmd.queuedAnns, nickAccepted,
    actor_eq hn]
  by_cases hne : new = n
  · rw [(processNick_noop_queued (cfg := cfg) (msg := msg) ha hn (Or.inl hne)).2]
    simp [hne, applyAnns, hr]
  · by_cases hc : Map.contains new x.w.users = true
    · rw [(processNick_noop_queued (cfg := cfg) (msg := msg) ha hn (Or.inr hc)).2]
      simp [hc, applyAnns, hr]
    · have hc' : Map.contains new x.w.users = false := by simpa using hc
      have hb : (new != n) = true := by simpa using hne
      simp only [hb, hc', Bool.not_false, Bool.and_self, ↓reduceIte]
      obtain ⟨m, hobs, hm⟩ := haft
      generalize hQ : (Map.keys (processNick cfg c new msg x).w.users).map (fun m =>
        (ownerOf (processNick cfg c new msg x).w m, Ann.nick n new)) = Q
      have hshape : ∀ a, (o, a) ∈ Q → a = Ann.nick n new := by
        intro a ha'
        rw [← hQ] at ha'
        obtain ⟨_, _, he⟩ := List.mem_map.mp ha'
        cases he; rfl
      have hmem : (o, Ann.nick n new) ∈ Q := by
        rw [← hQ]
        exact List.mem_map.mpr ⟨m, Map.mem_keys_of_contains hobs.contains, by rw [hobs.ownerOf]⟩
      rw [mem_applyAnns_nick ch n new (fun e => hne e.symm) _ r
        (fun a ha' => hshape a ((mem_delivered _ _ _).mp ha'))
        (by
          intro hnil
          have := (mem_delivered Q o (Ann.nick n new)).mpr hmem
          rw [hnil] at this; cases this)]
      rw [IP.nick_rename_memOf (cfg := cfg) (msg := msg) h ha hn hne hc' hu ch k]
      have hnew : x.w.memOf ch new = false := by
        cases hq : x.w.memOf ch new with
        | false => rfl
        | true =>
          have := (InvCore.memInv h).memberIsUser ch new hq
          rw [hc'] at this; cases this
      simp only [List.mem_map, hr]
      by_cases e1 : k = new
      · subst e1
        simp only [↓reduceIte]
        constructor
        · rintro ⟨j, hj, hjk⟩
          by_cases e2 : j = n
          · subst e2; exact hj
          · rw [if_neg e2] at hjk; subst hjk; rw [hnew] at hj; cases hj
        · intro ho; exact ⟨n, ho, by simp⟩
      · rw [if_neg e1]
        by_cases e2 : k = n
        · subst e2
          simp only [↓reduceIte, Bool.false_eq_true, iff_false, not_exists, not_and]
          intro j _ hjk
          by_cases e3 : j = k
          · rw [if_pos e3] at hjk; exact e1 hjk.symm
          · rw [if_neg e3] at hjk; exact e3 hjk
        · rw [if_neg e2]
          constructor
          · rintro ⟨j, hj, hjk⟩
            by_cases e3 : j = n
            · rw [if_pos e3] at hjk; exact absurd hjk.symm e1
            · rw [if_neg e3] at hjk; subst hjk; exact hj
          · intro hk; exact ⟨k, hk, by simp [e2]⟩

theorem applyAnns_own_join (ch n : Str) (mem : Str → List Str) :
    ∀ (acc : List Str) (r : List Str),
      applyAnns ch r (acc.flatMap (fun ch' => [Ann.join ch' n, Ann.names ch' (mem ch')])) =
        if ch ∈ acc then mem ch else r := by
  intro acc
  induction acc with
  | nil => intro r; rfl
  | cons a rest ih =>
    intro r
    rw [List.flatMap_cons, applyAnns_append, ih]
    by_cases e : a = ch
    · subst e
      simp [applyAnns, applyAnn]
    · have e' : ¬ ch = a := fun x => e x.symm
      simp [applyAnns, applyAnn, e, e']

/-- **the roster right after the own JOIN**: whatever the client believed before, after the burst of
    its own accepted JOIN of `ch` (JOIN line, NAMES reply) its roster is the member list of `ch` -/
theorem roster_own_join {cfg : Cfg} {c : Nat} {chs : List Str} {keys : Option (List Str)} {x : Ctx}
    {n : Str} (h : InvCore x.w) (hl : Live x.w c) (ha : (x.conn c).authenticated = true)
    (hn : (x.conn c).nick = some n) {ch : Str} (hch : ch ∈ acceptedOf cfg c chs keys x) (r : List Str) :
    applyAnns ch r ((MCmd.join chs keys).deliveredTo cfg c x c) =
      members (processJoin cfg c chs keys x).w ch := by
  obtain ⟨n', u, hn', hu, hown⟩ := sender_of_auth h hl ha
  rw [hn] at hn'; cases hn'
  obtain ⟨_, f1, _, _, _⟩ := processJoin_closed (cfg := cfg) (channels := chs) (keys := keys) h hn hu
  have hy : InvCore (processJoin cfg c chs keys x).w := (invCore_processJoin h hl ha).1
  have hobsn : Obs (processJoin cfg c chs keys x).w c n := Obs.of_frame f1 ⟨u, hu, hown⟩
  simp only [MCmd.deliveredTo, MCmd.directAnns, MCmd.queuedAnns, actor_eq hn, ↓reduceIte]
  have hq : ((joinQueue (processJoin cfg c chs keys x).w n (fun ch' => Ann.join ch' n)
      (acceptedOf cfg c chs keys x)).filter (fun p => p.1 == c)).map (·.2) = [] := by
    rw [List.eq_nil_iff_forall_not_mem]
    intro a ha'
    obtain ⟨ch', _, _, m, hm, hne, ho⟩ := (mem_joinQueue_iff _ _ _ _ _ _).mp ((mem_delivered _ _ _).mp ha')
    have hmu := members_are_users (InvCore.memInv hy) hm
    exact hne (ownerOf_inj hy hmu hobsn.contains (ho.trans hobsn.ownerOf.symm))
  rw [hq, List.append_nil, applyAnns_own_join ch n (members (processJoin cfg c chs keys x).w), if_pos hch]

/-! ### command sequences -/

/-- connection `o` owns a user that is on channel `ch` -/
def OnChannel (w : World) (ch : Str) (o : Nat) : Prop := ∃ m, Obs w o m ∧ C04.Member w ch m

/-- a sequence of commands `(connection, command)`, run one after the other -/
def runCmds (cfg : Cfg) : List (Nat × MCmd) → Ctx → Ctx
  | [], x => x
  | (c, cmd) :: rest, x => runCmds cfg rest (cmd.run cfg c x)

/-- everything connection `o` is told along the run, in order -/
def deliveredAlong (cfg : Cfg) (o : Nat) : List (Nat × MCmd) → Ctx → List Ann
  | [], _ => []
  | (c, cmd) :: rest, x => cmd.deliveredTo cfg c x o ++ deliveredAlong cfg o rest (cmd.run cfg c x)

/-- the hypotheses on a run: every command is issued on a live registered connection, and `o`'s user is
    on `ch` at every command boundary (in particular it does not disconnect: departures by disconnect
    are not announced by this server and are excluded, as in the statement of the property) -/
def Follows (cfg : Cfg) (ch : Str) (o : Nat) : List (Nat × MCmd) → Ctx → Prop
  | [], x => OnChannel x.w ch o
  | (c, cmd) :: rest, x =>
    OnChannel x.w ch o ∧ Live x.w c ∧ (x.conn c).authenticated = true ∧
      Follows cfg ch o rest (cmd.run cfg c x)

theorem Follows.head {cfg : Cfg} {ch : Str} {o : Nat} {cmds : List (Nat × MCmd)} {x : Ctx}
    (h : Follows cfg ch o cmds x) : OnChannel x.w ch o := by
  cases cmds with
  | nil => exact h
  | cons p rest => exact h.1

theorem invCore_run {cfg : Cfg} {c : Nat} {x : Ctx} (cmd : MCmd) (h : InvCore x.w) (hl : Live x.w c)
    (ha : (x.conn c).authenticated = true) : InvCore (cmd.run cfg c x).w := by
  cases cmd with
  | join chs keys => exact (invCore_processJoin h hl ha).1
  | part chs reason => exact (invCore_processPart h hl ha).1
  | kick chn us comment => exact (invCore_processKick h hl ha).1
  | nick new msg => exact (invCore_processNick h hl).1

theorem onChannel_of {w : World} {ch m : Str} {o : Nat}
    (h1 : (Map.lookup m w.users).map (·.owner) = some o) (h2 : w.memOf ch m = true) : OnChannel w ch o := by
  refine ⟨m, ?_, h2⟩
  cases hu : Map.lookup m w.users with
  | none => rw [hu] at h1; cases h1
  | some u => rw [hu] at h1; exact ⟨u, hu, by simpa using h1⟩
theorem live_of {w : World} {c : Nat} (h : w.conns.any (·.id == c) = true) : Live w c := by
  obtain ⟨cn, h1, h2⟩ := List.any_eq_true.mp h
  exact ⟨cn, h1, by simpa using h2⟩

/-! ## a small concrete world: three registered users `al` (connection 1), `bo` (2), `cy` (3);
    `al` creates `#c` (and so is founder + operator), then `bo` and `cy` join it -/

namespace Ex

def mkUser (owner : Nat) (nick : Str) : User :=
  { hostname := str "h", name := str "u", realname := str "r", source := nick ++ str "!~u@h", modes := {},
    history := ⟨str "u", str "h", str "r"⟩, owner := owner }
def mkConn (id : Nat) (nick : Str) : Conn :=
  { id := id, hostname := str "h", nick := some nick, name := some (str "u"), source := nick ++ str "!~u@h",
    authenticated := true, registered := true, hasSender := false, hasQuitSender := false,
    hasPingSender := false }

def al : Str := str "al"
def bo : Str := str "bo"
def cy : Str := str "cy"
def hc : Str := str "#c"

def w0 : World :=
  { users := [(al, mkUser 1 al), (bo, mkUser 2 bo), (cy, mkUser 3 cy)],
    conns := [mkConn 1 al, mkConn 2 bo, mkConn 3 cy], connsCount := 3, maxUsers := 3 }

theorem w0_users {n : Str} {u : User} (h : Map.lookup n w0.users = some u) :
    (n = al ∧ u = mkUser 1 al) ∨ (n = bo ∧ u = mkUser 2 bo) ∨ (n = cy ∧ u = mkUser 3 cy) := by
  simp only [w0, Map.lookup] at h
  split at h
  · rename_i e; cases h; exact Or.inl ⟨e.symm, rfl⟩
  · split at h
    · rename_i e; cases h; exact Or.inr (Or.inl ⟨e.symm, rfl⟩)
    · split at h
      · rename_i e; cases h; exact Or.inr (Or.inr ⟨e.symm, rfl⟩)
      · cases h

theorem w0_conns {cn : Conn} (h : cn ∈ w0.conns) :
    cn = mkConn 1 al ∨ cn = mkConn 2 bo ∨ cn = mkConn 3 cy := by
  simpa [w0] using h

theorem invCore_w0 : InvCore w0 where
  noPanic := rfl
  usersNodup := by decide
  chansNodup := by decide
  connsNodup := by decide
  membersNodup := fun ch C h => by cases h
  userChansNodup := fun n u h => by
    rcases w0_users h with ⟨_, rfl⟩ | ⟨_, rfl⟩ | ⟨_, rfl⟩ <;> exact List.nodup_nil
  authOwns := fun cn hcn _ => by
    rcases w0_conns hcn with rfl | rfl | rfl
    · exact ⟨al, mkUser 1 al, rfl, rfl, rfl⟩
    · exact ⟨bo, mkUser 2 bo, rfl, rfl, rfl⟩
    · exact ⟨cy, mkUser 3 cy, rfl, rfl, rfl⟩
  userOwned := fun n u h => by
    rcases w0_users h with ⟨rfl, rfl⟩ | ⟨rfl, rfl⟩ | ⟨rfl, rfl⟩
    · exact ⟨mkConn 1 al, by simp [w0], rfl, rfl, rfl⟩
    · exact ⟨mkConn 2 bo, by simp [w0], rfl, rfl, rfl⟩
    · exact ⟨mkConn 3 cy, by simp [w0], rfl, rfl, rfl⟩
  memberSym := fun n u ch h => by
    rcases w0_users h with ⟨rfl, rfl⟩ | ⟨rfl, rfl⟩ | ⟨rfl, rfl⟩ <;>
      exact ⟨fun h => (by cases h), fun ⟨C, h, _⟩ => (by cases h)⟩
  memberIsUser := fun ch C n h => by cases h
  rankMirror := fun ch C h => by cases h
  noEmptyAdHoc := fun ch C h => by cases h
  invisibleCount := rfl
  operatorsCount := rfl
  wallopsSet := fun n => by
    constructor
    · intro h; cases h
    · rintro ⟨u, h, hw⟩
      rcases w0_users h with ⟨rfl, rfl⟩ | ⟨rfl, rfl⟩ | ⟨rfl, rfl⟩ <;> cases hw
  maxUsers := by decide
  resources := fun cn hcn hf => by
    rcases w0_conns hcn with rfl | rfl | rfl <;> cases hf
  slots := rfl
  killedFlagged := fun n u h hk => by
    rcases w0_users h with ⟨rfl, rfl⟩ | ⟨rfl, rfl⟩ | ⟨rfl, rfl⟩ <;> cases hk

def cfg0 : Cfg := {}
def ctx (w : World) : Ctx := ⟨w, [], []⟩

def w1 : World := (processJoin cfg0 1 [hc] none (ctx w0)).w
def w2 : World := (processJoin cfg0 2 [hc] none (ctx w1)).w
/-- `#c` = al (founder, operator), bo, cy -/
def w3 : World := (processJoin cfg0 3 [hc] none (ctx w2)).w

theorem live_w0 (c : Nat) (hc : c = 1 ∨ c = 2 ∨ c = 3) : Live w0 c := by
  rcases hc with rfl | rfl | rfl
  · exact ⟨mkConn 1 al, by simp [w0], rfl⟩
  · exact ⟨mkConn 2 bo, by simp [w0], rfl⟩
  · exact ⟨mkConn 3 cy, by simp [w0], rfl⟩

theorem inv_w1 : InvCore w1 ∧ SameConnIds w0 w1 :=
  invCore_processJoin (x := ctx w0) invCore_w0 (live_w0 1 (by simp)) (by decide)
theorem inv_w2 : InvCore w2 ∧ SameConnIds w1 w2 :=
  invCore_processJoin (x := ctx w1) inv_w1.1 (Live.of_same inv_w1.2 (live_w0 2 (by simp))) (by decide)
theorem inv_w3 : InvCore w3 ∧ SameConnIds w2 w3 :=
  invCore_processJoin (x := ctx w2) inv_w2.1
    (Live.of_same inv_w2.2 (Live.of_same inv_w1.2 (live_w0 3 (by simp)))) (by decide)
theorem live_w3 (c : Nat) (hc : c = 1 ∨ c = 2 ∨ c = 3) : Live w3 c :=
  Live.of_same inv_w3.2 (Live.of_same inv_w2.2 (Live.of_same inv_w1.2 (live_w0 c hc)))

end Ex

end Irc.C04A
