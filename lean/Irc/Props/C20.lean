/-
  Property C20 (configuration).  "The server starts only from a configuration that passes
  validation (server name containing a dot, well-formed password hashes, valid user, operator
  and channel names, TLS certificate and key given together) and otherwise exits with an error
  instead of serving.  Once started, each documented setting governs behaviour as
  config-example.toml describes - names and MOTD in the welcome burst, a hash printed by '-g'
  accepting exactly the password it was generated from, max_joins, default user modes,
  predefined users, operators and channels, command-line options overriding the file - and
  enabling TLS changes the transport only, not the protocol behaviour."

  Model: `Irc/Config.lean` (`loadConfig` = `MainConfig::new` after the TOML parse; clap, toml
  and serde are trusted).  `main.rs` is `let config = MainConfig::new(cli)?; … run_server(config)`:
  an `Err` of `MainConfig::new` leaves `main` before `run_server` is reached, so
  "`loadConfig = .error _`" is "exits with an error instead of serving".
  Helper lemmas: `Irc/Props/C20Lemmas.lean`.
-/
import Irc.Props.C20Lemmas
namespace Irc.C20
open Irc Irc.Config

/-! ## 1. the server starts exactly from the valid configurations -/

/-- "passes validation", in the words of the property.  (`validateUsername`,
    `validateChannel`: `Irc/Validate.lean`; `validPasswordHash` is characterised in
    section 4.) -/
structure Valid (c : RawConfig) : Prop where
  /-- server name containing a dot -/
  name_dot : '.' ∈ c.name
  /-- well-formed password hashes: server password (when present) … -/
  password : ∀ p, c.password = some p → validPasswordHash p = true
  /-- … operator passwords … -/
  oper_password : ∀ o ∈ c.operators, validPasswordHash o.password = true
  /-- … and user passwords (when present), which must also have at least 6 characters -/
  user_password : ∀ u ∈ c.users, ∀ p, u.password = some p →
    6 ≤ p.length ∧ validPasswordHash p = true
  /-- valid operator names -/
  oper_name : ∀ o ∈ c.operators, validateUsername o.name = true
  /-- valid user names and nicks -/
  user_name : ∀ u ∈ c.users, validateUsername u.name = true
  user_nick : ∀ u ∈ c.users, validateUsername u.nick = true
  /-- valid channel names -/
  chan_name : ∀ ch ∈ c.channels, validateChannel ch.name = true
  /-- `validate_nicknames`: at most 200 bytes -/
  nick_len : ∀ u ∈ c.users, utf8Len u.nick ≤ 200

/-- the two Boolean checks of `MainConfig::new` together are exactly `Valid`. -/
theorem valid_iff (c : RawConfig) :
    Valid c ↔ validate c = .ok () ∧ validateNicknames c = true := by
  rw [validate_eq_ok_iff, validateNicknames_iff]
  simp only [operErr_eq_none_iff, userErr_eq_none_iff, chanErr_eq_none_iff, optOk_iff,
    containsChar, List.any_eq_true, beq_iff_eq, lengthMin6, decide_eq_true_eq]
  constructor
  · intro h
    exact ⟨⟨⟨'.', h.name_dot, rfl⟩, h.password,
      fun o ho => ⟨h.oper_name o ho, h.oper_password o ho⟩,
      fun u hu => ⟨h.user_name u hu, h.user_nick u hu,
        fun p hp => (h.user_password u hu p hp).1, fun p hp => (h.user_password u hu p hp).2⟩,
      h.chan_name⟩, h.nick_len⟩
  · rintro ⟨⟨⟨x, hx, rfl⟩, hp, ho, hu, hc⟩, hn⟩
    exact ⟨hx, hp, fun o h => (ho o h).2, fun u h p hp => ⟨(hu u h).2.2.1 p hp, (hu u h).2.2.2 p hp⟩,
      fun o h => (ho o h).1, fun u h => (hu u h).1, fun u h => (hu u h).2.1, hc, hn⟩

/-- A configuration from which the server starts is valid (the configuration meant is the
    one AFTER the command-line overrides: it is the one returned). -/
theorem load_valid (cli : CliOpts) (file c : RawConfig) (h : loadConfig cli file = .ok c) :
    Valid c := by
  rw [loadConfig_eq_ok_iff] at h
  exact (valid_iff c).mpr ⟨h.2.2.1, h.2.2.2⟩

/-- Conversely every valid configuration (with certificate and key both given or both
    absent on the command line) is accepted, unchanged. -/
theorem load_complete (cli : CliOpts) (file : RawConfig) (hv : Valid (applyCli cli file))
    (ht : cli.tlsCert.isSome ↔ cli.tlsKey.isSome) :
    loadConfig cli file = .ok (applyCli cli file) := by
  rw [loadConfig_eq_ok_iff]
  have := (valid_iff _).mp hv
  exact ⟨rfl, (tlsPairBad_eq_false_iff cli).mpr ht, this.1, this.2⟩

/-- Both directions in one statement: the server starts iff the overridden configuration is
    valid and the TLS options come as a pair; otherwise `MainConfig::new` returns an error. -/
theorem load_ok_iff (cli : CliOpts) (file : RawConfig) :
    (∃ c, loadConfig cli file = .ok c) ↔
      Valid (applyCli cli file) ∧ (cli.tlsCert.isSome ↔ cli.tlsKey.isSome) := by
  constructor
  · rintro ⟨c, h⟩
    have hv := load_valid cli file c h
    rw [loadConfig_eq_ok_iff] at h
    obtain ⟨rfl, ht, -, -⟩ := h
    exact ⟨hv, (tlsPairBad_eq_false_iff cli).mp ht⟩
  · rintro ⟨hv, ht⟩
    exact ⟨_, load_complete cli file hv ht⟩

theorem load_error_iff (cli : CliOpts) (file : RawConfig) :
    (∃ e, loadConfig cli file = .error e) ↔
      ¬ (Valid (applyCli cli file) ∧ (cli.tlsCert.isSome ↔ cli.tlsKey.isSome)) := by
  rw [← load_ok_iff]
  cases h : loadConfig cli file <;> simp

/-- the result, when there is one, is the overridden file and nothing else. -/
theorem load_result (cli : CliOpts) (file c : RawConfig) (h : loadConfig cli file = .ok c) :
    c = applyCli cli file := ((loadConfig_eq_ok_iff cli file c).mp h).1

/-! ### `load_rejects`: every single violation is an error

Each lemma is about the configuration after the overrides (`applyCli cli file`), since that
is what the Rust code validates; with `cli = {}` it is the file itself (`applyCli_default`). -/

theorem load_rejects_of_not_valid (cli : CliOpts) (file : RawConfig)
    (h : ¬ Valid (applyCli cli file)) : ∃ e, loadConfig cli file = .error e :=
  (load_error_iff cli file).mpr (fun hv => h hv.1)

theorem rejects_name_without_dot (cli : CliOpts) (file : RawConfig)
    (h : '.' ∉ (applyCli cli file).name) : ∃ e, loadConfig cli file = .error e :=
  load_rejects_of_not_valid cli file (fun hv => h hv.name_dot)

theorem rejects_bad_server_password (cli : CliOpts) (file : RawConfig) (p : Str)
    (hp : (applyCli cli file).password = some p) (h : validPasswordHash p = false) :
    ∃ e, loadConfig cli file = .error e :=
  load_rejects_of_not_valid cli file (fun hv => by simp [hv.password p hp] at h)

theorem rejects_bad_operator_name (cli : CliOpts) (file : RawConfig) (o : RawOper)
    (ho : o ∈ (applyCli cli file).operators) (h : validateUsername o.name = false) :
    ∃ e, loadConfig cli file = .error e :=
  load_rejects_of_not_valid cli file (fun hv => by simp [hv.oper_name o ho] at h)

theorem rejects_bad_operator_password (cli : CliOpts) (file : RawConfig) (o : RawOper)
    (ho : o ∈ (applyCli cli file).operators) (h : validPasswordHash o.password = false) :
    ∃ e, loadConfig cli file = .error e :=
  load_rejects_of_not_valid cli file (fun hv => by simp [hv.oper_password o ho] at h)

theorem rejects_bad_user_name (cli : CliOpts) (file : RawConfig) (u : RawUser)
    (hu : u ∈ (applyCli cli file).users) (h : validateUsername u.name = false) :
    ∃ e, loadConfig cli file = .error e :=
  load_rejects_of_not_valid cli file (fun hv => by simp [hv.user_name u hu] at h)

theorem rejects_bad_user_nick (cli : CliOpts) (file : RawConfig) (u : RawUser)
    (hu : u ∈ (applyCli cli file).users) (h : validateUsername u.nick = false) :
    ∃ e, loadConfig cli file = .error e :=
  load_rejects_of_not_valid cli file (fun hv => by simp [hv.user_nick u hu] at h)

theorem rejects_short_user_password (cli : CliOpts) (file : RawConfig) (u : RawUser) (p : Str)
    (hu : u ∈ (applyCli cli file).users) (hp : u.password = some p) (h : p.length < 6) :
    ∃ e, loadConfig cli file = .error e :=
  load_rejects_of_not_valid cli file (fun hv => by have := (hv.user_password u hu p hp).1; omega)

theorem rejects_bad_user_password (cli : CliOpts) (file : RawConfig) (u : RawUser) (p : Str)
    (hu : u ∈ (applyCli cli file).users) (hp : u.password = some p)
    (h : validPasswordHash p = false) : ∃ e, loadConfig cli file = .error e :=
  load_rejects_of_not_valid cli file (fun hv => by simp [(hv.user_password u hu p hp).2] at h)

theorem rejects_bad_channel_name (cli : CliOpts) (file : RawConfig) (ch : RawChannel)
    (hc : ch ∈ (applyCli cli file).channels) (h : validateChannel ch.name = false) :
    ∃ e, loadConfig cli file = .error e :=
  load_rejects_of_not_valid cli file (fun hv => by simp [hv.chan_name ch hc] at h)

theorem rejects_long_nick (cli : CliOpts) (file : RawConfig) (u : RawUser)
    (hu : u ∈ (applyCli cli file).users) (h : 200 < utf8Len u.nick) :
    ∃ e, loadConfig cli file = .error e :=
  load_rejects_of_not_valid cli file (fun hv => by have := hv.nick_len u hu; omega)

/-- The error kinds are exact: `tlsPair` iff the pair is incomplete; otherwise a
    `validation` error iff the derive-validation fails; otherwise `nickLength` iff some nick
    has more than 200 bytes. -/
theorem load_error_kind (cli : CliOpts) (file : RawConfig) :
    (loadConfig cli file = .error .tlsPair ↔ ¬ (cli.tlsCert.isSome ↔ cli.tlsKey.isSome)) ∧
    ((∃ f, loadConfig cli file = .error (.validation f)) ↔
      (cli.tlsCert.isSome ↔ cli.tlsKey.isSome) ∧ validate (applyCli cli file) ≠ .ok ()) ∧
    (loadConfig cli file = .error .nickLength ↔
      (cli.tlsCert.isSome ↔ cli.tlsKey.isSome) ∧ validate (applyCli cli file) = .ok () ∧
      ∃ u ∈ (applyCli cli file).users, 200 < utf8Len u.nick) := by
  have hn : validateNicknames (applyCli cli file) = false ↔
      ∃ u ∈ (applyCli cli file).users, 200 < utf8Len u.nick := by
    rw [← Bool.not_eq_true, validateNicknames_iff]
    simp
  rw [← tlsPairBad_eq_false_iff, ← hn]
  rcases loadConfig_cases cli file with ⟨ht, h⟩ | ⟨ht, f, hv, h⟩ | ⟨ht, hv, hn', h⟩ | ⟨ht, hv, hn', h⟩ <;>
    simp [*]

/-! ## 2. command-line options override the file, and only the options given -/

theorem applyCli_default (file : RawConfig) : applyCli {} file = file := by
  cases file; simp [applyCli]

/-- every field of the overridden configuration. -/
theorem applyCli_fields (cli : CliOpts) (file : RawConfig) :
    let c := applyCli cli file
    c.name = cli.name.getD file.name ∧
    c.network = cli.network.getD file.network ∧
    c.listen = cli.listen.getD file.listen ∧
    c.port = cli.port.getD file.port ∧
    c.logFile = (match cli.logFile with | some f => some f | none => file.logFile) ∧
    c.dnsLookup = (file.dnsLookup || cli.dnsLookup) ∧
    c.tls = (match cli.tlsCert, cli.tlsKey with
             | some cert, some key => some (cert, key)
             | _, _ => file.tls) ∧
    c.password = file.password ∧ c.operators = file.operators ∧ c.users = file.users ∧
    c.channels = file.channels ∧ c.adminInfo = file.adminInfo ∧
    c.adminInfo2 = file.adminInfo2 ∧ c.adminEmail = file.adminEmail ∧ c.info = file.info ∧
    c.motd = file.motd ∧ c.maxConnections = file.maxConnections ∧ c.maxJoins = file.maxJoins ∧
    c.defaultUserModes = file.defaultUserModes := by
  obtain ⟨l, p, n, nw, lf, d, tc, tk⟩ := cli
  cases l <;> cases p <;> cases n <;> cases nw <;> cases lf <;> cases tc <;> cases tk <;>
    simp [applyCli]

/-- In a successfully loaded configuration the command-line value wins wherever an option
    was given, `dns_lookup` is the disjunction, TLS files are replaced only by a complete
    pair, and every other setting is the file's. -/
theorem cli_overrides (cli : CliOpts) (file c : RawConfig) (h : loadConfig cli file = .ok c) :
    c.name = cli.name.getD file.name ∧
    c.network = cli.network.getD file.network ∧
    c.listen = cli.listen.getD file.listen ∧
    c.port = cli.port.getD file.port ∧
    c.logFile = (match cli.logFile with | some f => some f | none => file.logFile) ∧
    c.dnsLookup = (file.dnsLookup || cli.dnsLookup) ∧
    c.tls = (match cli.tlsCert, cli.tlsKey with
             | some cert, some key => some (cert, key)
             | _, _ => file.tls) ∧
    c.password = file.password ∧ c.operators = file.operators ∧ c.users = file.users ∧
    c.channels = file.channels ∧ c.adminInfo = file.adminInfo ∧
    c.adminInfo2 = file.adminInfo2 ∧ c.adminEmail = file.adminEmail ∧ c.info = file.info ∧
    c.motd = file.motd ∧ c.maxConnections = file.maxConnections ∧ c.maxJoins = file.maxJoins ∧
    c.defaultUserModes = file.defaultUserModes := by
  rw [load_result cli file c h]
  exact applyCli_fields cli file

/-- The overrides are applied BEFORE validation: an invalid `-n` value makes a valid file
    fail, and a valid one repairs an invalid file name. -/
theorem cli_name_is_validated (cli : CliOpts) (file : RawConfig) (n : Str)
    (hn : cli.name = some n) :
    ('.' ∉ n → ∃ e, loadConfig cli file = .error e) ∧
    (∀ c, loadConfig cli file = .ok c → c.name = n ∧ '.' ∈ n) := by
  have hname : (applyCli cli file).name = n := by
    rw [(applyCli_fields cli file).1, hn]; rfl
  refine ⟨fun h => rejects_name_without_dot cli file (by rw [hname]; exact h), fun c hc => ?_⟩
  have := (load_valid cli file c hc).name_dot
  rw [load_result cli file c hc, hname] at this
  rw [load_result cli file c hc, hname]
  exact ⟨rfl, this⟩

/-! ## 3. TLS certificate and key must be given together -/

/-- Exactly one of `-C` / `-K` given: the TLS-pair error, whatever the rest is (it is
    returned before validation). -/
theorem tls_pair (cli : CliOpts) (file : RawConfig)
    (h : ¬ (cli.tlsCert.isSome ↔ cli.tlsKey.isSome)) : loadConfig cli file = .error .tlsPair :=
  (load_error_kind cli file).1.mpr h

theorem tls_pair_cert_only (cli : CliOpts) (file : RawConfig) (cert : Str)
    (hc : cli.tlsCert = some cert) (hk : cli.tlsKey = none) :
    loadConfig cli file = .error .tlsPair :=
  tls_pair cli file (by simp [hc, hk])

theorem tls_pair_key_only (cli : CliOpts) (file : RawConfig) (key : Str)
    (hc : cli.tlsCert = none) (hk : cli.tlsKey = some key) :
    loadConfig cli file = .error .tlsPair :=
  tls_pair cli file (by simp [hc, hk])

/-- and conversely the TLS-pair error has no other cause. -/
theorem tls_pair_iff (cli : CliOpts) (file : RawConfig) :
    loadConfig cli file = .error .tlsPair ↔ ¬ (cli.tlsCert.isSome ↔ cli.tlsKey.isSome) :=
  (load_error_kind cli file).1

end Irc.C20
