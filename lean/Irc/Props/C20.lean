/-
  Property C20 (configuration).  "The server starts only from a configuration that passes
  validation (server name containing a dot, well-formed password hashes, valid user, operator
  and channel names, TLS certificate and key given together) and otherwise exits with an error
  instead of serving.  Once started, each documented setting governs behaviour as
  config-example.toml describes - names and MOTD in the welcome burst, a hash printed by '-g'
  accepting exactly the password it was generated from, max_joins, default user modes,
  predefined users, operators and channels, command-line options overriding the file - and
  enabling TLS changes the transport only, not the protocol behaviour."

  Model: `Irc/Config.lean` (`loadConfig` = `MainConfig::new` after the TOML parse; clap, toml
  and serde are trusted).  `main.rs` is `let config = MainConfig::new(cli)?; … run_server(config)`:
  an `Err` of `MainConfig::new` leaves `main` before `run_server` is reached, so
  "`loadConfig = .error _`" is "exits with an error instead of serving".
  Helper lemmas: `Irc/Props/C20Lemmas.lean`.
-/
import Irc.Props.C20Lemmas
namespace Irc.C20
open Irc Irc.Config

/-! ## 1. the server starts exactly from the valid configurations -/

/-- "passes validation", in the words of the property.  (`validateUsername`,
    `validateChannel`: `Irc/Validate.lean`; `validPasswordHash` is characterised in
    section 4.) -/
structure Valid (c : RawConfig) : Prop where
  /-- server name containing a dot -/
  name_dot : '.' ∈ c.name
  /-- well-formed password hashes: server password (when present) … -/
  password : ∀ p, c.password = some p → validPasswordHash p = true
  /-- … operator passwords … -/
  oper_password : ∀ o ∈ c.operators, validPasswordHash o.password = true
  /-- … and user passwords (when present), which must also have at least 6 characters -/
  user_password : ∀ u ∈ c.users, ∀ p, u.password = some p →
    6 ≤ p.length ∧ validPasswordHash p = true
  /-- valid operator names -/
  oper_name : ∀ o ∈ c.operators, validateUsername o.name = true
  /-- valid user names and nicks -/
  user_name : ∀ u ∈ c.users, validateUsername u.name = true
  user_nick : ∀ u ∈ c.users, validateUsername u.nick = true
  /-- valid channel names -/
  chan_name : ∀ ch ∈ c.channels, validateChannel ch.name = true
  /-- `validate_nicknames`: at most 200 bytes -/
  nick_len : ∀ u ∈ c.users, utf8Len u.nick ≤ 200

/-- the two Boolean checks of `MainConfig::new` together are exactly `Valid`. -/
theorem valid_iff (c : RawConfig) :
    Valid c ↔ validate c = .ok () ∧ validateNicknames c = true := by
  rw [validate_eq_ok_iff, validateNicknames_iff]
  simp only [operErr_eq_none_iff, userErr_eq_none_iff, chanErr_eq_none_iff, optOk_iff,
    containsChar, List.any_eq_true, beq_iff_eq, lengthMin6, decide_eq_true_eq]
  constructor
  · intro h
    exact ⟨⟨⟨'.', h.name_dot, rfl⟩, h.password,
      fun o ho => ⟨h.oper_name o ho, h.oper_password o ho⟩,
      fun u hu => ⟨h.user_name u hu, h.user_nick u hu,
        fun p hp => (h.user_password u hu p hp).1, fun p hp => (h.user_password u hu p hp).2⟩,
      h.chan_name⟩, h.nick_len⟩
  · rintro ⟨⟨⟨x, hx, rfl⟩, hp, ho, hu, hc⟩, hn⟩
    exact ⟨hx, hp, fun o h => (ho o h).2, fun u h p hp => ⟨(hu u h).2.2.1 p hp, (hu u h).2.2.2 p hp⟩,
      fun o h => (ho o h).1, fun u h => (hu u h).1, fun u h => (hu u h).2.1, hc, hn⟩

/-- A configuration from which the server starts is valid (the configuration meant is the
    one AFTER the command-line overrides: it is the one returned). -/
theorem load_valid (cli : CliOpts) (file c : RawConfig) (h : loadConfig cli file = .ok c) :
    Valid c := by
  rw [loadConfig_eq_ok_iff] at h
  exact (valid_iff c).mpr ⟨h.2.2.1, h.2.2.2⟩

/-- Conversely every valid configuration (with certificate and key both given or both
    absent on the command line) is accepted, unchanged. -/
theorem load_complete (cli : CliOpts) (file : RawConfig) (hv : Valid (applyCli cli file))
    (ht : cli.tlsCert.isSome ↔ cli.tlsKey.isSome) :
    loadConfig cli file = .ok (applyCli cli file) := by
  rw [loadConfig_eq_ok_iff]
  have := (valid_iff _).mp hv
  exact ⟨rfl, (tlsPairBad_eq_false_iff cli).mpr ht, this.1, this.2⟩

/-- Both directions in one statement: the server starts iff the overridden configuration is
    valid and the TLS options come as a pair; otherwise `MainConfig::new` returns an error. -/
theorem load_ok_iff (cli : CliOpts) (file : RawConfig) :
    (∃ c, loadConfig cli file = .ok c) ↔
      Valid (applyCli cli file) ∧ (cli.tlsCert.isSome ↔ cli.tlsKey.isSome) := by
  constructor
  · rintro ⟨c, h⟩
    have hv := load_valid cli file c h
    rw [loadConfig_eq_ok_iff] at h
    obtain ⟨rfl, ht, -, -⟩ := h
    exact ⟨hv, (tlsPairBad_eq_false_iff cli).mp ht⟩
  · rintro ⟨hv, ht⟩
    exact ⟨_, load_complete cli file hv ht⟩

theorem load_error_iff (cli : CliOpts) (file : RawConfig) :
    (∃ e, loadConfig cli file = .error e) ↔
      ¬ (Valid (applyCli cli file) ∧ (cli.tlsCert.isSome ↔ cli.tlsKey.isSome)) := by
  rw [← load_ok_iff]
  cases h : loadConfig cli file <;> simp

/-- the result, when there is one, is the overridden file and nothing else. -/
theorem load_result (cli : CliOpts) (file c : RawConfig) (h : loadConfig cli file = .ok c) :
    c = applyCli cli file := ((loadConfig_eq_ok_iff cli file c).mp h).1

/-! ### `load_rejects`: every single violation is an error

Each lemma is about the configuration after the overrides (`applyCli cli file`), since that
is what the Rust code validates; with `cli = {}` it is the file itself (`applyCli_default`). -/

theorem load_rejects_of_not_valid (cli : CliOpts) (file : RawConfig)
    (h : ¬ Valid (applyCli cli file)) : ∃ e, loadConfig cli file = .error e :=
  (load_error_iff cli file).mpr (fun hv => h hv.1)

theorem rejects_name_without_dot (cli : CliOpts) (file : RawConfig)
    (h : '.' ∉ (applyCli cli file).name) : ∃ e, loadConfig cli file = .error e :=
  load_rejects_of_not_valid cli file (fun hv => h hv.name_dot)

theorem rejects_bad_server_password (cli : CliOpts) (file : RawConfig) (p : Str)
    (hp : (applyCli cli file).password = some p) (h : validPasswordHash p = false) :
    ∃ e, loadConfig cli file = .error e :=
  load_rejects_of_not_valid cli file (fun hv => by simp [hv.password p hp] at h)

theorem rejects_bad_operator_name (cli : CliOpts) (file : RawConfig) (o : RawOper)
    (ho : o ∈ (applyCli cli file).operators) (h : validateUsername o.name = false) :
    ∃ e, loadConfig cli file = .error e :=
  load_rejects_of_not_valid cli file (fun hv => by simp [hv.oper_name o ho] at h)

theorem rejects_bad_operator_password (cli : CliOpts) (file : RawConfig) (o : RawOper)
    (ho : o ∈ (applyCli cli file).operators) (h : validPasswordHash o.password = false) :
    ∃ e, loadConfig cli file = .error e :=
  load_rejects_of_not_valid cli file (fun hv => by simp [hv.oper_password o ho] at h)

theorem rejects_bad_user_name (cli : CliOpts) (file : RawConfig) (u : RawUser)
    (hu : u ∈ (applyCli cli file).users) (h : validateUsername u.name = false) :
    ∃ e, loadConfig cli file = .error e :=
  load_rejects_of_not_valid cli file (fun hv => by simp [hv.user_name u hu] at h)

theorem rejects_bad_user_nick (cli : CliOpts) (file : RawConfig) (u : RawUser)
    (hu : u ∈ (applyCli cli file).users) (h : validateUsername u.nick = false) :
    ∃ e, loadConfig cli file = .error e :=
  load_rejects_of_not_valid cli file (fun hv => by simp [hv.user_nick u hu] at h)

theorem rejects_short_user_password (cli : CliOpts) (file : RawConfig) (u : RawUser) (p : Str)
    (hu : u ∈ (applyCli cli file).users) (hp : u.password = some p) (h : p.length < 6) :
    ∃ e, loadConfig cli file = .error e :=
  load_rejects_of_not_valid cli file (fun hv => by have := (hv.user_password u hu p hp).1; omega)

theorem rejects_bad_user_password (cli : CliOpts) (file : RawConfig) (u : RawUser) (p : Str)
    (hu : u ∈ (applyCli cli file).users) (hp : u.password = some p)
    (h : validPasswordHash p = false) : ∃ e, loadConfig cli file = .error e :=
  load_rejects_of_not_valid cli file (fun hv => by simp [(hv.user_password u hu p hp).2] at h)

theorem rejects_bad_channel_name (cli : CliOpts) (file : RawConfig) (ch : RawChannel)
    (hc : ch ∈ (applyCli cli file).channels) (h : validateChannel ch.name = false) :
    ∃ e, loadConfig cli file = .error e :=
  load_rejects_of_not_valid cli file (fun hv => by simp [hv.chan_name ch hc] at h)

theorem rejects_long_nick (cli : CliOpts) (file : RawConfig) (u : RawUser)
    (hu : u ∈ (applyCli cli file).users) (h : 200 < utf8Len u.nick) :
    ∃ e, loadConfig cli file = .error e :=
  load_rejects_of_not_valid cli file (fun hv => by have := hv.nick_len u hu; omega)

/-- The error kinds are exact: `tlsPair` iff the pair is incomplete; otherwise a
    `validation` error iff the derive-validation fails; otherwise `nickLength` iff some nick
    has more than 200 bytes. -/
theorem load_error_kind (cli : CliOpts) (file : RawConfig) :
    (loadConfig cli file = .error .tlsPair ↔ ¬ (cli.tlsCert.isSome ↔ cli.tlsKey.isSome)) ∧
    ((∃ f, loadConfig cli file = .error (.validation f)) ↔
      (cli.tlsCert.isSome ↔ cli.tlsKey.isSome) ∧ validate (applyCli cli file) ≠ .ok ()) ∧
    (loadConfig cli file = .error .nickLength ↔
      (cli.tlsCert.isSome ↔ cli.tlsKey.isSome) ∧ validate (applyCli cli file) = .ok () ∧
      ∃ u ∈ (applyCli cli file).users, 200 < utf8Len u.nick) := by
  have hn : validateNicknames (applyCli cli file) = false ↔
      ∃ u ∈ (applyCli cli file).users, 200 < utf8Len u.nick := by
    rw [← Bool.not_eq_true, validateNicknames_iff]
    simp
  rw [← tlsPairBad_eq_false_iff, ← hn]
  rcases loadConfig_cases cli file with ⟨ht, h⟩ | ⟨ht, f, hv, h⟩ | ⟨ht, hv, hn', h⟩ | ⟨ht, hv, hn', h⟩ <;>
    simp [*]

/-! ## 2. command-line options override the file, and only the options given -/

theorem applyCli_default (file : RawConfig) : applyCli {} file = file := by
  cases file; simp [applyCli]

/-- every field of the overridden configuration. -/
theorem applyCli_fields (cli : CliOpts) (file : RawConfig) :
    let c := applyCli cli file
    c.name = cli.name.getD file.name ∧
    c.network = cli.network.getD file.network ∧
    c.listen = cli.listen.getD file.listen ∧
    c.port = cli.port.getD file.port ∧
    c.logFile = (match cli.logFile with | some f => some f | none => file.logFile) ∧
    c.dnsLookup = (file.dnsLookup || cli.dnsLookup) ∧
    c.tls = (match cli.tlsCert, cli.tlsKey with
             | some cert, some key => some (cert, key)
             | _, _ => file.tls) ∧
    c.password = file.password ∧ c.operators = file.operators ∧ c.users = file.users ∧
    c.channels = file.channels ∧ c.adminInfo = file.adminInfo ∧
    c.adminInfo2 = file.adminInfo2 ∧ c.adminEmail = file.adminEmail ∧ c.info = file.info ∧
    c.motd = file.motd ∧ c.maxConnections = file.maxConnections ∧ c.maxJoins = file.maxJoins ∧
    c.defaultUserModes = file.defaultUserModes := by
  obtain ⟨l, p, n, nw, lf, d, tc, tk⟩ := cli
  cases l <;> cases p <;> cases n <;> cases nw <;> cases lf <;> cases tc <;> cases tk <;>
    simp [applyCli]

/-- In a successfully loaded configuration the command-line value wins wherever an option
    was given, `dns_lookup` is the disjunction, TLS files are replaced only by a complete
    pair, and every other setting is the file's. -/
theorem cli_overrides (cli : CliOpts) (file c : RawConfig) (h : loadConfig cli file = .ok c) :
    c.name = cli.name.getD file.name ∧
    c.network = cli.network.getD file.network ∧
    c.listen = cli.listen.getD file.listen ∧
    c.port = cli.port.getD file.port ∧
    c.logFile = (match cli.logFile with | some f => some f | none => file.logFile) ∧
    c.dnsLookup = (file.dnsLookup || cli.dnsLookup) ∧
    c.tls = (match cli.tlsCert, cli.tlsKey with
             | some cert, some key => some (cert, key)
             | _, _ => file.tls) ∧
    c.password = file.password ∧ c.operators = file.operators ∧ c.users = file.users ∧
    c.channels = file.channels ∧ c.adminInfo = file.adminInfo ∧
    c.adminInfo2 = file.adminInfo2 ∧ c.adminEmail = file.adminEmail ∧ c.info = file.info ∧
    c.motd = file.motd ∧ c.maxConnections = file.maxConnections ∧ c.maxJoins = file.maxJoins ∧
    c.defaultUserModes = file.defaultUserModes := by
  rw [load_result cli file c h]
  exact applyCli_fields cli file

/-- The overrides are applied BEFORE validation: an invalid `-n` value makes a valid file
    fail, and a valid one repairs an invalid file name. -/
theorem cli_name_is_validated (cli : CliOpts) (file : RawConfig) (n : Str)
    (hn : cli.name = some n) :
    ('.' ∉ n → ∃ e, loadConfig cli file = .error e) ∧
    (∀ c, loadConfig cli file = .ok c → c.name = n ∧ '.' ∈ n) := by
  have hname : (applyCli cli file).name = n := by
    rw [(applyCli_fields cli file).1, hn]; rfl
  refine ⟨fun h => rejects_name_without_dot cli file (by rw [hname]; exact h), fun c hc => ?_⟩
  have := (load_valid cli file c hc).name_dot
  rw [load_result cli file c hc, hname] at this
  rw [load_result cli file c hc, hname]
  exact ⟨rfl, this⟩

/-! ## 3. TLS certificate and key must be given together -/

/-- Exactly one of `-C` / `-K` given: the TLS-pair error, whatever the rest is (it is
    returned before validation). -/
theorem tls_pair (cli : CliOpts) (file : RawConfig)
    (h : ¬ (cli.tlsCert.isSome ↔ cli.tlsKey.isSome)) : loadConfig cli file = .error .tlsPair :=
  (load_error_kind cli file).1.mpr h

theorem tls_pair_cert_only (cli : CliOpts) (file : RawConfig) (cert : Str)
    (hc : cli.tlsCert = some cert) (hk : cli.tlsKey = none) :
    loadConfig cli file = .error .tlsPair :=
  tls_pair cli file (by simp [hc, hk])

theorem tls_pair_key_only (cli : CliOpts) (file : RawConfig) (key : Str)
    (hc : cli.tlsCert = none) (hk : cli.tlsKey = some key) :
    loadConfig cli file = .error .tlsPair :=
  tls_pair cli file (by simp [hc, hk])

/-- and conversely the TLS-pair error has no other cause. -/
theorem tls_pair_iff (cli : CliOpts) (file : RawConfig) :
    loadConfig cli file = .error .tlsPair ↔ ¬ (cli.tlsCert.isSome ↔ cli.tlsKey.isSome) :=
  (load_error_kind cli file).1

/-! ## 4. password hashes: what validation accepts is exactly what `-g` can print

`-g` prints `argon2_hash_password(pw)` = the `Display` of the 64-byte argon2 `Output` = the
unpadded standard base64 text of those 64 bytes (`b64encode`).  `validate_password_hash`
decodes with the same alphabet (base64ct rejects non-canonical trailing bits) and demands 64
bytes.  (`B64Alphabet c`: `c` is in `A-Z`, `a-z`, `0-9`, `+`, `/`; defined in `C20Lemmas`.) -/

/-- shape: 86 characters of the alphabet, the last one with its four low bits zero. -/
theorem validPasswordHash_spec (s : Str) :
    validPasswordHash s = true ↔
      s.length = 86 ∧ (∀ c ∈ s, B64Alphabet c) ∧
      ∃ c, s.getLast? = some c ∧ (c = 'A' ∨ c = 'Q' ∨ c = 'g' ∨ c = 'w') := by
  unfold validPasswordHash
  simp only [Bool.and_eq_true, beq_iff_eq, List.all_eq_true, isB64Char_iff, lastCanonical_iff,
    canonical_last_char, and_assoc]

/-- every text that `-g` can print (64 bytes, unpadded base64) passes validation. -/
theorem hash_shape_of_64_bytes (bytes : List Nat) (hb : ∀ b ∈ bytes, b < 256)
    (hl : bytes.length = 64) : validPasswordHash (b64encode bytes) = true := by
  unfold validPasswordHash
  simp only [Bool.and_eq_true, beq_iff_eq, List.all_eq_true]
  refine ⟨⟨?_, b64encode_all bytes hb⟩, b64encode_lastCanonical bytes hb (by omega)⟩
  rw [b64encode_length, hl]

/-- decoding gives back the bytes: the hash stored in the file denotes exactly the argon2
    output that `-g` computed (so verification compares against that very output). -/
theorem b64_roundtrip (bytes : List Nat) (hb : ∀ b ∈ bytes, b < 256) :
    b64decode (b64encode bytes) = some bytes := b64decode_b64encode bytes hb

/-- two different outputs are never printed as the same text. -/
theorem b64encode_injective (a b : List Nat) (ha : ∀ x ∈ a, x < 256) (hb : ∀ x ∈ b, x < 256)
    (h : b64encode a = b64encode b) : a = b := by
  have := b64_roundtrip a ha
  rw [h, b64_roundtrip b hb] at this
  exact (Option.some.inj this).symm

/-- Exactness: the accepted texts are precisely the encodings of 64-byte strings. -/
theorem validPasswordHash_iff_encoding (s : Str) :
    validPasswordHash s = true ↔
      ∃ bytes, bytes.length = 64 ∧ (∀ b ∈ bytes, b < 256) ∧ b64encode bytes = s := by
  constructor
  · intro h
    unfold validPasswordHash at h
    simp only [Bool.and_eq_true, beq_iff_eq, List.all_eq_true] at h
    obtain ⟨⟨hl, ha⟩, hc⟩ := h
    obtain ⟨bs, hbs⟩ := b64decode_isSome s ha hc (by omega)
    obtain ⟨he, hb⟩ := b64encode_b64decode s bs hbs
    refine ⟨bs, ?_, hb, he⟩
    have := b64encode_length bs
    rw [he, hl] at this
    omega
  · rintro ⟨bytes, hl, hb, rfl⟩
    exact hash_shape_of_64_bytes bytes hb hl

/-- the decoder of the model agrees with the predicate. -/
theorem validPasswordHash_iff_decode (s : Str) :
    validPasswordHash s = true ↔ ∃ bytes, b64decode s = some bytes ∧ bytes.length = 64 := by
  rw [validPasswordHash_iff_encoding]
  constructor
  · rintro ⟨bytes, hl, hb, rfl⟩
    exact ⟨bytes, b64_roundtrip bytes hb, hl⟩
  · rintro ⟨bytes, hd, hl⟩
    obtain ⟨he, hb⟩ := b64encode_b64decode s bytes hd
    exact ⟨bytes, hl, hb, he⟩

example : validPasswordHash (b64encode (List.replicate 64 255)) = true := by decide
example : b64encode [0x14, 0xfb, 0x9c, 0x03, 0xd9, 0x7e] = str "FPucA9l+" := by decide
example : b64encode [0x14, 0xfb, 0x9c, 0x03, 0xd9] = str "FPucA9k" := by decide
example : b64encode [0x14, 0xfb, 0x9c, 0x03] = str "FPucAw" := by decide

/-! ## 5. the settings govern behaviour

All statements are about the protocol model's configuration record `Irc.Cfg`; the loaded
configuration enters it through `RawConfig.toCfg` (which copies the fields), so together with
`cli_overrides` they also cover "command-line options overriding the file"
(`cli_governs_welcome`).

**TLS.**  The model has no notion of transport: `step`, `handleLine`, `dispatch` and every
handler take the configuration, a connection id and the parsed line — there is no `secure`
parameter anywhere, which is the modelling decision that enabling TLS changes the transport
only.  The single place where the Rust code lets the transport show is the 671 "is using a
secure connection" line of WHOIS; `whoisOne` in `Irc/HRest.lean` models the plain transport and
omits it.  This is a documented scope restriction, not a theorem. -/

section governs
open Reply

/-- names, network and MOTD in the welcome burst: every line carries the server name as its
    source; 001 names the network; 002, 004 and 375 name the server; 372 is the MOTD. -/
theorem welcome_uses_config (cfg : Cfg) (cn : Conn) (m : Str) (x : Ctx) :
    let out := (welcomeBurst cfg cn m x).direct
    let client := cn.clientName
    (':' :: (cfg.name ++ str " 001 " ++ client ++ str " :Welcome to the " ++ cfg.network ++
        str " Network, " ++ cn.nick.getD [] ++ str "!~" ++ cn.name.getD [] ++ str "@" ++ cn.hostname))
      ∈ out ∧
    (':' :: (cfg.name ++ str " 002 " ++ client ++ str " :Your host is " ++ cfg.name ++
        str ", running version " ++ pkgDash)) ∈ out ∧
    serverLine cfg (RplMyInfo004 client cfg.name pkgDash (str "Oiorw") (str "Iabehiklmnopqstv") none)
      ∈ out ∧
    (':' :: (cfg.name ++ str " 375 " ++ client ++ str " :- " ++ cfg.name ++
        str " Message of the day - ")) ∈ out ∧
    serverLine cfg (RplMotd372 client cfg.motd) ∈ out ∧
    (':' :: (cfg.name ++ str " 372 " ++ client ++ str " :" ++ cfg.motd)) ∈ out ∧
    (∀ l ∈ out, l ∈ x.direct ∨ (':' :: cfg.name ++ [' ']) <+: l) := by
  intro out client
  have hout := welcomeBurst_direct cfg cn m x
  have m001 : serverLine cfg (RplWelcome001 cn.clientName cfg.network (cn.nick.getD [])
      (cn.name.getD []) cn.hostname) ∈ (welcomeBurst cfg cn m x).direct := by rw [hout]; simp
  have m002 : serverLine cfg (RplYourHost002 cn.clientName cfg.name pkgDash)
      ∈ (welcomeBurst cfg cn m x).direct := by rw [hout]; simp
  have m004 : serverLine cfg (RplMyInfo004 cn.clientName cfg.name pkgDash (str "Oiorw")
      (str "Iabehiklmnopqstv") none) ∈ (welcomeBurst cfg cn m x).direct := by rw [hout]; simp
  have m375 : serverLine cfg (RplMotdStart375 cn.clientName cfg.name)
      ∈ (welcomeBurst cfg cn m x).direct := by rw [hout]; simp
  have m372 : serverLine cfg (RplMotd372 cn.clientName cfg.motd)
      ∈ (welcomeBurst cfg cn m x).direct := by rw [hout]; simp
  refine ⟨?_, ?_, m004, ?_, m372, ?_, ?_⟩
  · have e : (':' :: (cfg.name ++ str " 001 " ++ client ++ str " :Welcome to the " ++ cfg.network ++
        str " Network, " ++ cn.nick.getD [] ++ str "!~" ++ cn.name.getD [] ++ str "@" ++ cn.hostname))
        = serverLine cfg (RplWelcome001 cn.clientName cfg.network (cn.nick.getD [])
            (cn.name.getD []) cn.hostname) := by
      simp [serverLine, RplWelcome001, str, client]
    rw [e]; exact m001
  · have e : (':' :: (cfg.name ++ str " 002 " ++ client ++ str " :Your host is " ++ cfg.name ++
        str ", running version " ++ pkgDash))
        = serverLine cfg (RplYourHost002 cn.clientName cfg.name pkgDash) := by
      simp [serverLine, RplYourHost002, str, client]
    rw [e]; exact m002
  · have e : (':' :: (cfg.name ++ str " 375 " ++ client ++ str " :- " ++ cfg.name ++
        str " Message of the day - "))
        = serverLine cfg (RplMotdStart375 cn.clientName cfg.name) := by
      simp [serverLine, RplMotdStart375, str, client]
    rw [e]; exact m375
  · have e : (':' :: (cfg.name ++ str " 372 " ++ client ++ str " :" ++ cfg.motd))
        = serverLine cfg (RplMotd372 cn.clientName cfg.motd) := by
      simp [serverLine, RplMotd372, str, client]
    rw [e]; exact m372
  · intro l hl
    have hl' : l ∈ (welcomeBurst cfg cn m x).direct := hl
    rw [hout] at hl'
    simp only [List.mem_append, List.mem_cons, List.mem_map, List.not_mem_nil, or_false,
      lusersLines] at hl'
    have hp : ∀ t, (':' :: cfg.name ++ [' ']) <+: serverLine cfg t := by
      intro t; exact ⟨t, by simp [serverLine]⟩
    rcases hl' with (((h | h) | h) | h) | h
    · exact Or.inl h
    · rcases h with rfl | rfl | rfl | rfl <;> exact Or.inr (hp _)
    · obtain ⟨toks, -, rfl⟩ := h; exact Or.inr (hp _)
    · rcases h with rfl | rfl | rfl | rfl | rfl | rfl | rfl <;> exact Or.inr (hp _)
    · rcases h with rfl | rfl | rfl | rfl <;> exact Or.inr (hp _)

/-- ISUPPORT (005): `NETWORK=<network>` always; `CHANLIMIT=&#:n` and `MAXCHANNELS=n` exactly
    when `max_joins = n` is configured (no such token otherwise, and no other value). -/
theorem support_tokens_use_config (cfg : Cfg) :
    (str "NETWORK=" ++ cfg.network) ∈ supportTokens cfg ∧
    (∀ t ∈ supportTokens cfg, str "NETWORK=" <+: t → t = str "NETWORK=" ++ cfg.network) ∧
    (∀ n, cfg.maxJoins = some n →
      (str "CHANLIMIT=&#:" ++ natToStr n) ∈ supportTokens cfg ∧
      (str "MAXCHANNELS=" ++ natToStr n) ∈ supportTokens cfg) ∧
    (∀ t ∈ supportTokens cfg, str "CHANLIMIT=" <+: t →
      ∃ n, cfg.maxJoins = some n ∧ t = str "CHANLIMIT=&#:" ++ natToStr n) ∧
    (∀ t ∈ supportTokens cfg, str "MAXCHANNELS=" <+: t →
      ∃ n, cfg.maxJoins = some n ∧ t = str "MAXCHANNELS=" ++ natToStr n) := by
  refine ⟨by simp [supportTokens], ?_, ?_, ?_, ?_⟩
  · intro t ht hp
    simp only [supportTokens, List.mem_append, List.mem_cons, List.not_mem_nil, or_false] at ht
    rcases ht with (((ht | ht) | ht) | ht) | ht
    · exact ht
    · cases hm : cfg.maxJoins with
      | none => simp [hm] at ht
      | some n =>
        simp only [hm, List.mem_cons, List.not_mem_nil, or_false] at ht
        rcases ht with rfl | rfl <;> simp [str] at hp
    · rcases ht with rfl | rfl | rfl | rfl | rfl | rfl | rfl | rfl | rfl <;> simp [str] at hp
    · rcases ht with rfl | rfl | rfl | rfl | rfl | rfl | rfl | rfl | rfl | rfl | rfl | rfl | rfl <;>
        simp [str] at hp
    · rcases ht with rfl | rfl <;> simp [str] at hp
  · intro n hn
    simp [supportTokens, hn]
  · intro t ht hp
    simp only [supportTokens, List.mem_append, List.mem_cons, List.not_mem_nil, or_false] at ht
    rcases ht with (((ht | ht) | ht) | ht) | ht
    · subst ht; simp [str] at hp
    · cases hm : cfg.maxJoins with
      | none => simp [hm] at ht
      | some n =>
        simp only [hm, List.mem_cons, List.not_mem_nil, or_false] at ht
        rcases ht with rfl | rfl
        · exact ⟨n, rfl, rfl⟩
        · simp [str] at hp
    · rcases ht with rfl | rfl | rfl | rfl | rfl | rfl | rfl | rfl | rfl <;> simp [str] at hp
    · rcases ht with rfl | rfl | rfl | rfl | rfl | rfl | rfl | rfl | rfl | rfl | rfl | rfl | rfl <;>
        simp [str] at hp
    · rcases ht with rfl | rfl <;> simp [str] at hp
  · intro t ht hp
    simp only [supportTokens, List.mem_append, List.mem_cons, List.not_mem_nil, or_false] at ht
    rcases ht with (((ht | ht) | ht) | ht) | ht
    · subst ht; simp [str] at hp
    · cases hm : cfg.maxJoins with
      | none => simp [hm] at ht
      | some n =>
        simp only [hm, List.mem_cons, List.not_mem_nil, or_false] at ht
        rcases ht with rfl | rfl
        · simp [str] at hp
        · exact ⟨n, rfl, rfl⟩
    · rcases ht with rfl | rfl | rfl | rfl | rfl | rfl | rfl | rfl | rfl <;> simp [str] at hp
    · rcases ht with rfl | rfl | rfl | rfl | rfl | rfl | rfl | rfl | rfl | rfl | rfl | rfl | rfl <;>
        simp [str] at hp
    · rcases ht with rfl | rfl <;> simp [str] at hp

/-- … and every ISUPPORT token is sent in one of the 005 lines of the welcome burst. -/
theorem welcome_sends_support_tokens (cfg : Cfg) (cn : Conn) (m : Str) (x : Ctx) :
    ∀ t ∈ supportTokens cfg, ∃ toks : List Str, t ∈ toks ∧
      (':' :: (cfg.name ++ str " 005 " ++ cn.clientName ++ str " " ++ joinWith [' '] toks ++
        str " :are supported by this server")) ∈ (welcomeBurst cfg cn m x).direct := by
  intro t ht
  obtain ⟨toks, htoks, hmem⟩ :=
    mem_chunks 10 (by decide) (sortStrs (supportTokens cfg)) t ((mem_sortStrs _ _).mpr ht)
  refine ⟨toks, hmem, ?_⟩
  rw [welcomeBurst_direct]
  simp only [List.mem_append, List.mem_map]
  left; left; right
  refine ⟨toks, htoks, ?_⟩
  simp [serverLine, RplISupport005, str]

/-- command-line options reach the behaviour: after a successful load with `-n name` /
    `-N network`, the welcome burst of the running server uses those values. -/
theorem cli_governs_welcome (cli : CliOpts) (file c : RawConfig) (h : loadConfig cli file = .ok c)
    (cn : Conn) (m : Str) (x : Ctx) :
    c.toCfg.name = cli.name.getD file.name ∧ c.toCfg.network = cli.network.getD file.network ∧
    c.toCfg.motd = file.motd ∧ c.toCfg.maxJoins = file.maxJoins ∧
    c.toCfg.defaultUserModes = file.defaultUserModes ∧
    (':' :: (cli.name.getD file.name ++ str " 001 " ++ cn.clientName ++ str " :Welcome to the " ++
        cli.network.getD file.network ++ str " Network, " ++ cn.nick.getD [] ++ str "!~" ++
        cn.name.getD [] ++ str "@" ++ cn.hostname)) ∈ (welcomeBurst c.toCfg cn m x).direct := by
  have ho := cli_overrides cli file c h
  have hw := (welcome_uses_config c.toCfg cn m x).1
  have e1 : c.toCfg.name = c.name := rfl
  have e2 : c.toCfg.network = c.network := rfl
  rw [e1, e2, ho.1, ho.2.1] at hw
  refine ⟨ho.1, ho.2.1, ?_, ?_, ?_, hw⟩
  · exact ho.2.2.2.2.2.2.2.2.2.2.2.2.2.2.2.1
  · exact ho.2.2.2.2.2.2.2.2.2.2.2.2.2.2.2.2.2.1
  · exact ho.2.2.2.2.2.2.2.2.2.2.2.2.2.2.2.2.2.2

/-- default user modes: on the success path of registration the user record inserted for
    the nick has the configured default modes, `registered` additionally set for a predefined
    user. -/
theorem default_modes_applied (cfg : Cfg) (c : Nat) (x : Ctx) (nick : Str) (registered : Bool)
    (hd : authDecision cfg (x.conn c) = .decided true registered)
    (hn : (x.conn c).nick = some nick)
    (hfree : Map.contains nick x.w.users = false)
    (hs : (x.conn c).hasSender = true) (hq : (x.conn c).hasQuitSender = true) :
    ∃ u, Map.lookup nick (authenticate cfg c x).w.users = some u ∧
      u.modes = { cfg.defaultUserModes with
                  registered := cfg.defaultUserModes.registered || registered } := by
  unfold authenticate
  simp only [hd, hn, hfree, hs, hq, if_true, Bool.not_false, Bool.not_true, Bool.or_self,
    Bool.false_eq_true, if_false]
  split <;>
    simp [welcomeBurst_users, addUser_users]

/-- `max_joins`: the JOIN decision loop never lets the channel count exceed `max_joins`
    (if it was not already above), counts one per accepted channel, and accepts nothing once
    the limit is reached. -/
theorem max_joins_enforced (cfg : Cfg) (w : World) (cn : Conn) (nick : Str) (inv : KSet)
    (chans : List Str) (keys : List (Option Str)) (cnt : Nat) :
    let r := joinDecide cfg w cn nick inv chans keys cnt
    r.2.2 = cnt + (r.1.filter (·.1)).length ∧
    (∀ mj, cfg.maxJoins = some mj → r.2.2 ≤ max cnt mj) ∧
    (∀ mj, cfg.maxJoins = some mj → mj ≤ cnt → ∀ d ∈ r.1, d.1 = false) := by
  intro r
  have h := joinDecide_count cfg w cn nick inv chans keys cnt
  refine ⟨h.1, h.2, ?_⟩
  intro mj hmj hle d hd
  have h1 := h.1
  have h2 := h.2 mj hmj
  have hz : (r.1.filter (·.1)).length = 0 := by
    show ((joinDecide cfg w cn nick inv chans keys cnt).1.filter (·.1)).length = 0
    omega
  have hnil : r.1.filter (·.1) = [] := List.eq_nil_of_length_eq_zero hz
  cases hb : d.1
  · rfl
  · have hm : d ∈ r.1.filter (·.1) := List.mem_filter.mpr ⟨hd, hb⟩
    rw [hnil] at hm; cases hm

/-- the channel record created at start-up for a configured channel: topic without author,
    the configured flags / key / limit / lists, the rank lists moved to `defaultModes`, nobody
    inside, marked preconfigured. -/
def preconfiguredChannel (ch : ChanCfg) : Channel :=
  { topic := ch.topic.map (fun t => { topic := t, nick := [] })
    modes := { ch.modes with operators := [], halfOperators := [], voices := [], founders := [],
                             protecteds := [] }
    defaultModes := { operators := ch.modes.operators, halfOperators := ch.modes.halfOperators,
                      voices := ch.modes.voices, founders := ch.modes.founders,
                      protecteds := ch.modes.protecteds }
    users := []
    preconfigured := true }

/-- predefined channels: the initial world contains exactly the configured channel names
    (the last entry wins for a repeated name), each with the configured topic and modes. -/
theorem predefined_channels (cfg : Cfg) (k : Str) :
    Map.lookup k (World.init cfg).channels =
      (cfg.channels.reverse.find? (fun ch => ch.name == k)).map preconfiguredChannel := by
  unfold World.init
  simp only
  rw [lookup_foldl_insert (fun c : ChanCfg => c.name)]
  cases cfg.channels.reverse.find? (fun ch => ch.name == k) <;> simp [preconfiguredChannel]

theorem predefined_channel_exists (cfg : Cfg) (k : Str) :
    Map.contains k (World.init cfg).channels = true ↔ ∃ ch ∈ cfg.channels, ch.name = k := by
  unfold Map.contains
  rw [predefined_channels]
  simp only [Option.isSome_map, List.find?_isSome, List.mem_reverse, beq_iff_eq]

/-- predefined users: a connection whose USER name is configured is checked against THAT
    user's mask and password (falling back to the server password only when the user has
    none) and becomes `registered`; an unknown name is checked against the server password
    and is not `registered`. -/
theorem predefined_user_governs (cfg : Cfg) (cn : Conn) (nick name : Str)
    (hc : cn.capsNeg = false) (hn : cn.nick = some nick) (hu : cn.name = some name) :
    (∀ u mask, cfg.findUser name = some u → u.mask = some mask →
        matchWildcard mask cn.source = false → authDecision cfg cn = .maskMismatch) ∧
    (∀ u p, cfg.findUser name = some u → (∀ mask, u.mask = some mask →
        matchWildcard mask cn.source = true) → u.password = some p →
        authDecision cfg cn =
          .decided (match cn.password with | some e => cfg.pwOk e p | none => false) true) ∧
    (∀ u, cfg.findUser name = some u → (∀ mask, u.mask = some mask →
        matchWildcard mask cn.source = true) → u.password = none → cfg.password = none →
        authDecision cfg cn = .decided true true) ∧
    (cfg.findUser name = none → ∀ p, cfg.password = some p →
        authDecision cfg cn =
          .decided (match cn.password with | some e => cfg.pwOk e p | none => false) false) ∧
    (cfg.findUser name = none → cfg.password = none →
        authDecision cfg cn = .decided true false) := by
  refine ⟨?_, ?_, ?_, ?_, ?_⟩
  · intro u mask hf hm hw
    simp [authDecision, hc, hn, hu, hf, hm, hw]
  · intro u p hf hm hp
    cases hmask : u.mask with
    | none => simp [authDecision, hc, hn, hu, hf, hmask, hp]; cases cn.password <;> rfl
    | some mask =>
      simp [authDecision, hc, hn, hu, hf, hmask, hm mask hmask, hp]; cases cn.password <;> rfl
  · intro u hf hm hp hsp
    cases hmask : u.mask with
    | none => simp [authDecision, hc, hn, hu, hf, hmask, hp, hsp]
    | some mask => simp [authDecision, hc, hn, hu, hf, hmask, hm mask hmask, hp, hsp]
  · intro hf p hp
    simp [authDecision, hc, hn, hu, hf, hp]; cases cn.password <;> rfl
  · intro hf hp
    simp [authDecision, hc, hn, hu, hf, hp]

/-- predefined operators: OPER with a name that is not configured is refused with 491 and
    changes nothing; with a configured name, the matching password and (if any) mask, the
    user becomes an operator. -/
theorem predefined_operator_governs (cfg : Cfg) (c : Nat) (name password nick : Str) (x : Ctx)
    (hn : (x.conn c).nick = some nick) :
    (cfg.findOper name = none →
      processOper cfg c name password x = x.reply cfg (ErrNoOperHost491 (x.conn c).clientName)) ∧
    (∀ op user, cfg.findOper name = some op → Map.lookup nick x.w.users = some user →
      cfg.pwOk password op.password = true →
      (∀ mask, op.mask = some mask → matchWildcard mask (x.conn c).source = true) →
      Map.lookup nick (processOper cfg c name password x).w.users =
        some { user with modes := { user.modes with oper := true } }) ∧
    (∀ op user, cfg.findOper name = some op → Map.lookup nick x.w.users = some user →
      cfg.pwOk password op.password = false →
      processOper cfg c name password x =
        x.reply cfg (ErrPasswdMismatch464 (x.conn c).clientName)) := by
  refine ⟨?_, ?_, ?_⟩
  · intro hf
    simp [processOper, hn, hf]
  · intro op user hf hu hp hm
    cases hmask : op.mask with
    | none =>
      simp only [processOper, hn, hf, hu, hp, hmask, Bool.not_true, Bool.false_eq_true, if_false,
        Ctx.reply_w, Ctx.modifyW_w]
      split <;> simp
    | some mask =>
      simp only [processOper, hn, hf, hu, hp, hmask, hm mask hmask, Bool.not_true,
        Bool.false_eq_true, if_false, Ctx.reply_w, Ctx.modifyW_w]
      split <;> simp
  · intro op user hf hu hp
    simp [processOper, hn, hf, hu, hp]

end governs

/-! ## 6. examples (`decide`), on the configuration of the Rust unit test
(`Irc.Config.sample` / `sampleCli` = first file and `cli2` of `test_mainconfig_new`) -/

example : loadConfig {} sample = .ok sample := by decide
example : renderResult (loadConfig {} sample)
    = str "Ok irci.localhost IRCInetwork 6667 127.0.0.1 false true" := by decide
example : renderResult (loadConfig sampleCli sample)
    = str "Ok ircer.localhost SomeNetwork 6668 192.168.1.4 true true" := by decide
example : (loadConfig sampleCli sample).toOption.map (·.tls)
    = some (some (str "some_cert.crt", str "some_key.crt")) := by decide
-- one of certificate / key only: error before validation
example : loadConfig { sampleCli with tlsKey := none } sample = .error .tlsPair := by decide
example : loadConfig { tlsKey := some (str "k"), name := some (str "nodot") } sample
    = .error .tlsPair := by decide
-- server name without a dot
example : loadConfig {} { sample with name := str "ircilocalhost" }
    = .error (.validation (str "name")) := by decide
-- `-n nodot`: the override happens before validation
example : loadConfig { name := some (str "nodot") } sample
    = .error (.validation (str "name")) := by decide
-- `-n` repairs a bad name in the file
example : (loadConfig { name := some (str "a.b") } { sample with name := str "bad" }).toOption.map
    (·.name) = some (str "a.b") := by decide
example : loadConfig {} { sample with password := some (str "xxxxxxxxxx") }
    = .error (.validation (str "password")) := by decide
example : loadConfig {} { sample with operators := [{ name := str "matis.zpaki", password := hashB }] }
    = .error (.validation (str "operators[0].name")) := by decide
example : loadConfig {} { sample with operators := [{ name := str "matiszpaki", password := str "xxxxxxx" }] }
    = .error (.validation (str "operators[0].password")) := by decide
example : loadConfig {} { sample with users := [{ name := str "lucas", nick := str "luckboy", password := some (str "xxxxxxxx") }] }
    = .error (.validation (str "users[0].password")) := by decide
example : loadConfig {} { sample with users := [{ name := str "lucas", nick := str "luckboy", password := some (str "xxx") }] }
    = .error (.validation (str "users[0].password")) := by decide
example : loadConfig {} { sample with users := [{ name := str "lu cas", nick := str "luckboy" }] }
    = .error (.validation (str "users[0].name")) := by decide
example : loadConfig {} { sample with users := [{ name := str "lucas", nick := str "#luckboy" }] }
    = .error (.validation (str "users[0].nick")) := by decide
example : loadConfig {} { sample with channels := [{ name := str "#channel1" }, { name := str "^channel2" }] }
    = .error (.validation (str "channels[1].name")) := by decide
example : loadConfig {} { sample with channels := [{ name := str "#cha:nnel2" }] }
    = .error (.validation (str "channels[0].name")) := by decide
-- nick of 201 bytes: passes `validate_username`, fails `validate_nicknames`
set_option maxRecDepth 4000 in
example : loadConfig {} { sample with users := [{ name := str "lucas", nick := List.replicate 201 'a' }] }
    = .error .nickLength := by decide
set_option maxRecDepth 4000 in
example : (loadConfig {} { sample with users := [{ name := str "lucas", nick := List.replicate 200 'a' }] }).toOption.isSome
    = true := by decide
-- the length is in bytes: 101 two-byte characters = 202 bytes
example : loadConfig {} { sample with users := [{ name := str "lucas", nick := List.replicate 101 'é' }] }
    = .error .nickLength := by decide


/-! ### the hypotheses of the theorems above are satisfiable, the conclusions informative -/

-- `load_valid` / `load_complete` / `cli_overrides`
example : Valid small := (valid_iff small).mpr ⟨by decide, by decide⟩
example : loadConfig { name := some (str "x.y"), port := some 7000 } small
    = .ok { small with name := str "x.y", port := 7000 } := by decide
-- `cli_name_is_validated`
example : loadConfig { name := some (str "nodot") } small = .error (.validation (str "name")) := by
  decide
-- `tls_pair`: cert only, key only; and the file's `[tls]` section does not help
example : loadConfig { tlsCert := some (str "c") } small = .error .tlsPair := by decide
example : loadConfig { tlsKey := some (str "k") } { small with tls := some (str "a", str "b") }
    = .error .tlsPair := by decide
example : (loadConfig { tlsKey := some (str "k"), tlsCert := some (str "c") } small).toOption.map (·.tls)
    = some (some (str "c", str "k")) := by decide

/-- a connection that has sent NICK and USER, in an otherwise empty server. -/
def demoCtx : Ctx :=
  { w := { conns := [{ (Conn.new 1 (str "h")) with
    nick := some (str "al"), name := some (str "u"), source := str "al!~u@h" }] } }

def demoCfg : Cfg :=
  { name := str "srv.x", network := str "Net", motd := str "hi", maxJoins := some 1,
    defaultUserModes := { invisible := true, wallops := true },
    users := [{ name := str "u2", nick := str "n2", password := some (str "pw"), mask := none }],
    channels := [{ name := str "#pre", topic := some (str "T"), modes := { moderated := true, operators := [str "al"] } }] }

-- `default_modes_applied`: hypotheses hold here, and the inserted user has `+iw`
example : authDecision demoCfg (demoCtx.conn 1) = .decided true false := by decide
example : (Map.lookup (str "al") (authenticate demoCfg 1 demoCtx).w.users).map (·.modes)
    = some { invisible := true, wallops := true } := by decide
-- predefined user `u2`: password `pw` required, then `+r`
example : authDecision demoCfg { demoCtx.conn 1 with name := some (str "u2") } = .decided false true := by
  decide
example : authDecision demoCfg { demoCtx.conn 1 with name := some (str "u2"), password := some (str "pw") }
    = .decided true true := by decide
-- `welcome_uses_config`: the first two lines
example : ((welcomeBurst demoCfg (demoCtx.conn 1) (str "+iw") demoCtx).direct.take 2)
    = [(str ":srv.x " ++ Reply.RplWelcome001 (client := str "al") (networkname := str "Net") (nick := str "al") (user := str "u") (host := str "h")),
       (str ":srv.x " ++ Reply.RplYourHost002 (client := str "al") (servername := str "srv.x") (version := str "irc-harness-0.1.0"))] := by decide
-- `support_tokens_use_config`
example : str "MAXCHANNELS=1" ∈ supportTokens demoCfg ∧ str "CHANLIMIT=&#:1" ∈ supportTokens demoCfg ∧
    str "NETWORK=Net" ∈ supportTokens demoCfg := by decide
example : ¬ (supportTokens {}).any (fun t => (str "MAXCHANNELS=").isPrefixOf t) := by decide
-- `max_joins_enforced`: limit 1, two new channels requested: the second is refused
example : (joinDecide demoCfg {} (demoCtx.conn 1) (str "al") [] [str "#a", str "#b"] [] 0).1
    = [(true, true), (false, true)] := by decide
-- `predefined_channels`
example : (Map.lookup (str "#pre") (World.init demoCfg).channels).map
      (fun c => (c.topic.map (·.topic), c.modes.moderated, c.defaultModes.operators, c.users.length, c.preconfigured))
    = some (some (str "T"), true, [str "al"], 0, true) := by decide

end Irc.C20
