/-
  Irc.Ctx — what a handler threads through: the world, the lines written to the acting
  connection's own socket buffer (`direct`, flushed at the end of `process`) and the lines
  pushed into other users' mpsc queues (`queued`, in push order, tagged with the owning
  connection).
-/
import Irc.State
import Irc.Reply

namespace Irc

structure Ctx where
  w : World
  direct : List Str := []
  queued : List (Nat × Str) := []
  deriving Repr, Inhabited

namespace Ctx

/-- `feed_msg`: `":{server} {t}"` into the acting connection's buffer. -/
def reply (x : Ctx) (cfg : Cfg) (t : Str) : Ctx :=
  { x with direct := x.direct ++ [':' :: (cfg.name ++ ' ' :: t)] }

/-- `feed_msg_source`. -/
def replySrc (x : Ctx) (src t : Str) : Ctx :=
  { x with direct := x.direct ++ [':' :: (src ++ ' ' :: t)] }

/-- `users.get(nick).unwrap().sender.send(line)`. -/
def send (x : Ctx) (nick line : Str) : Ctx :=
  match Map.lookup nick x.w.users with
  | some u => { x with queued := x.queued ++ [(u.owner, line)] }
  | none => { x with w := x.w.panic "send to unknown user" }

/-- `send_msg_display(source, t)`. -/
def sendDisplay (x : Ctx) (nick src t : Str) : Ctx := x.send nick (':' :: (src ++ ' ' :: t))

def sendAll (x : Ctx) (nicks : List Str) (line : Str) : Ctx :=
  nicks.foldl (fun x n => x.send n line) x

def conn (x : Ctx) (c : Nat) : Conn := (x.w.conn? c).getD (Conn.new c [])

def setConn (x : Ctx) (cn : Conn) : Ctx := { x with w := x.w.setConn cn }

def modifyW (x : Ctx) (f : World → World) : Ctx := { x with w := f x.w }

def panic (x : Ctx) (site : String) : Ctx := { x with w := x.w.panic site }

end Ctx

/-- package name/version as compiled into the harness crate (`CARGO_PKG_NAME`-`VERSION`);
    no property depends on it. -/
def pkgDash : Str := str "irc-harness-0.1.0"
def pkgSpace : Str := str "irc-harness 0.1.0"

end Irc
