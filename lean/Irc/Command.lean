/-
  Irc.Command — command.rs `Command::parse_from_message` / `validate` / `from_message`,
  utils.rs `validate_usermodes` / `validate_channelmodes`, the Display / Debug renderings,
  and structs.rs `get_privmsg_target_type`.
-/
import Irc.Message
namespace Irc

/-! ### CommandId -/

inductive CmdId
  | CAP | AUTHENTICATE | PASS | NICK | USER | PING | PONG | OPER | QUIT | JOIN | PART
  | TOPIC | NAMES | LIST | INVITE | KICK | MOTD | VERSION | ADMIN | CONNECT | LUSERS
  | TIME | STATS | LINKS | HELP | INFO | MODE | PRIVMSG | NOTICE | WHO | WHOIS | WHOWAS
  | KILL | REHASH | RESTART | SQUIT | AWAY | USERHOST | WALLOPS | ISON | DIE
  deriving DecidableEq, Repr

/-- `CommandId::name`. -/
def CmdId.name : CmdId → Str
  | .CAP => str "CAP" | .AUTHENTICATE => str "AUTHENTICATE" | .PASS => str "PASS"
  | .NICK => str "NICK" | .USER => str "USER" | .PING => str "PING" | .PONG => str "PONG"
  | .OPER => str "OPER" | .QUIT => str "QUIT" | .JOIN => str "JOIN" | .PART => str "PART"
  | .TOPIC => str "TOPIC" | .NAMES => str "NAMES" | .LIST => str "LIST"
  | .INVITE => str "INVITE" | .KICK => str "KICK" | .MOTD => str "MOTD"
  | .VERSION => str "VERSION" | .ADMIN => str "ADMIN" | .CONNECT => str "CONNECT"
  | .LUSERS => str "LUSERS" | .TIME => str "TIME" | .STATS => str "STATS"
  | .LINKS => str "LINKS" | .HELP => str "HELP" | .INFO => str "INFO" | .MODE => str "MODE"
  | .PRIVMSG => str "PRIVMSG" | .NOTICE => str "NOTICE" | .WHO => str "WHO"
  | .WHOIS => str "WHOIS" | .WHOWAS => str "WHOWAS" | .KILL => str "KILL"
  | .REHASH => str "REHASH" | .RESTART => str "RESTART" | .SQUIT => str "SQUIT"
  | .AWAY => str "AWAY" | .USERHOST => str "USERHOST" | .WALLOPS => str "WALLOPS"
  | .ISON => str "ISON" | .DIE => str "DIE"

/-- all ids in declaration order (= `Command::index` order). -/
def CmdId.all : List CmdId :=
  [.CAP, .AUTHENTICATE, .PASS, .NICK, .USER, .PING, .PONG, .OPER, .QUIT, .JOIN, .PART,
   .TOPIC, .NAMES, .LIST, .INVITE, .KICK, .MOTD, .VERSION, .ADMIN, .CONNECT, .LUSERS,
   .TIME, .STATS, .LINKS, .HELP, .INFO, .MODE, .PRIVMSG, .NOTICE, .WHO, .WHOIS, .WHOWAS,
   .KILL, .REHASH, .RESTART, .SQUIT, .AWAY, .USERHOST, .WALLOPS, .ISON, .DIE]

/-- `Command::index` (0..40). -/
def CmdId.index : CmdId → Nat
  | .CAP => 0 | .AUTHENTICATE => 1 | .PASS => 2 | .NICK => 3 | .USER => 4 | .PING => 5
  | .PONG => 6 | .OPER => 7 | .QUIT => 8 | .JOIN => 9 | .PART => 10 | .TOPIC => 11
  | .NAMES => 12 | .LIST => 13 | .INVITE => 14 | .KICK => 15 | .MOTD => 16 | .VERSION => 17
  | .ADMIN => 18 | .CONNECT => 19 | .LUSERS => 20 | .TIME => 21 | .STATS => 22
  | .LINKS => 23 | .HELP => 24 | .INFO => 25 | .MODE => 26 | .PRIVMSG => 27 | .NOTICE => 28
  | .WHO => 29 | .WHOIS => 30 | .WHOWAS => 31 | .KILL => 32 | .REHASH => 33
  | .RESTART => 34 | .SQUIT => 35 | .AWAY => 36 | .USERHOST => 37 | .WALLOPS => 38
  | .ISON => 39 | .DIE => 40

/-- the verb table of `match message.command.to_ascii_uppercase().as_str()`. -/
def CmdId.ofName? (s : Str) : Option CmdId := CmdId.all.find? (fun c => c.name == s)

/-- `{:?}` of `CommandId` (const_table derives Debug on the plain enum: the Rust variant
    name, i.e. `JOINId`, and `_QUITId` for the variants declared with an underscore). -/
def CmdId.debug (c : CmdId) : Str :=
  let underscored : Bool := match c with
    | .AUTHENTICATE | .QUIT | .LUSERS | .HELP | .INFO | .REHASH | .RESTART | .AWAY
    | .DIE => true
    | _ => false
  (if underscored then ['_'] else []) ++ c.name ++ str "Id"

/-! ### Command -/

inductive CapCommand | LS | LIST | REQ | END
  deriving DecidableEq, Repr

def CapCommand.debug : CapCommand → Str
  | .LS => str "LS" | .LIST => str "LIST" | .REQ => str "REQ" | .END => str "END"

inductive Command
  | CAP (subcommand : CapCommand) (caps : Option (List Str)) (version : Option Nat)
  | AUTHENTICATE
  | PASS (password : Str)
  | NICK (nickname : Str)
  | USER (username hostname servername realname : Str)
  | PING (token : Str)
  | PONG (token : Str)
  | OPER (name password : Str)
  | QUIT
  | JOIN (channels : List Str) (keys : Option (List Str))
  | PART (channels : List Str) (reason : Option Str)
  | TOPIC (channel : Str) (topic : Option Str)
  | NAMES (channels : List Str)
  | LIST (channels : List Str) (server : Option Str)
  | INVITE (nickname channel : Str)
  | KICK (channel : Str) (users : List Str) (comment : Option Str)
  | MOTD (target : Option Str)
  | VERSION (target : Option Str)
  | ADMIN (target : Option Str)
  | CONNECT (targetServer : Str) (port : Option Nat) (remoteServer : Option Str)
  | LUSERS
  | TIME (server : Option Str)
  | STATS (query : Char) (server : Option Str)
  | LINKS (remoteServer serverMask : Option Str)
  | HELP (subject : Option Str)
  | INFO
  | MODE (target : Str) (modes : List (Str × List Str))
  | PRIVMSG (targets : List Str) (text : Str)
  | NOTICE (targets : List Str) (text : Str)
  | WHO (mask : Str)
  | WHOIS (target : Option Str) (nickmasks : List Str)
  | WHOWAS (nickname : Str) (count : Option Nat) (server : Option Str)
  | KILL (nickname comment : Str)
  | REHASH
  | RESTART
  | SQUIT (server comment : Str)
  | AWAY (text : Option Str)
  | USERHOST (nicknames : List Str)
  | WALLOPS (text : Str)
  | ISON (nicknames : List Str)
  | DIE (message : Option Str)
  deriving DecidableEq, Repr

def Command.id : Command → CmdId
  | .CAP .. => .CAP | .AUTHENTICATE => .AUTHENTICATE | .PASS .. => .PASS | .NICK .. => .NICK
  | .USER .. => .USER | .PING .. => .PING | .PONG .. => .PONG | .OPER .. => .OPER
  | .QUIT => .QUIT | .JOIN .. => .JOIN | .PART .. => .PART | .TOPIC .. => .TOPIC
  | .NAMES .. => .NAMES | .LIST .. => .LIST | .INVITE .. => .INVITE | .KICK .. => .KICK
  | .MOTD .. => .MOTD | .VERSION .. => .VERSION | .ADMIN .. => .ADMIN
  | .CONNECT .. => .CONNECT | .LUSERS => .LUSERS | .TIME .. => .TIME | .STATS .. => .STATS
  | .LINKS .. => .LINKS | .HELP .. => .HELP | .INFO => .INFO | .MODE .. => .MODE
  | .PRIVMSG .. => .PRIVMSG | .NOTICE .. => .NOTICE | .WHO .. => .WHO | .WHOIS .. => .WHOIS
  | .WHOWAS .. => .WHOWAS | .KILL .. => .KILL | .REHASH => .REHASH | .RESTART => .RESTART
  | .SQUIT .. => .SQUIT | .AWAY .. => .AWAY | .USERHOST .. => .USERHOST
  | .WALLOPS .. => .WALLOPS | .ISON .. => .ISON | .DIE .. => .DIE

/-- `Command::index`. -/
def Command.index (c : Command) : Nat := c.id.index

/-! ### CommandError -/

inductive CommandError
  | unknownCommand (s : Str)
  | unknownSubcommand (c : CmdId) (s : Str)
  | needMoreParams (c : CmdId)
  | parameterDoesntMatch (c : CmdId) (i : Nat)
  | wrongParameter (c : CmdId) (i : Nat)
  | unknownMode (i : Nat) (c : Char) (channel : Str)
  | unknownUModeFlag (i : Nat)
  | invalidModeParam (target : Str) (modechar : Char) (param : Str) (description : Str)
  deriving DecidableEq, Repr

/-- `impl Display for CommandError`. -/
def CommandError.render : CommandError → Str
  | .unknownCommand s => str "Unknown command '" ++ s ++ str "'"
  | .unknownSubcommand c s =>
    str "Unknown subcommand '" ++ s ++ str "' in command '" ++ c.name ++ str "'"
  | .needMoreParams c => str "Command '" ++ c.name ++ str "' needs more parameters"
  | .parameterDoesntMatch c i =>
    str "Parameter " ++ natToStr i ++ str " doesn't match for command '" ++ c.name ++ str "'"
  | .wrongParameter c i =>
    str "Wrong parameter " ++ natToStr i ++ str " in command '" ++ c.name ++ str "'"
  | .unknownMode i c ch =>
    str "Unknown mode " ++ [c] ++ str " in parameter " ++ natToStr i ++ str " for " ++ ch
  | .unknownUModeFlag i => str "Unknown umode flag in parameter " ++ natToStr i
  | .invalidModeParam target modechar param description =>
    str "Invalid mode parameter: " ++ target ++ [' ', modechar, ' '] ++ param ++ [' '] ++
      description

/-- `{:?}` of CommandError (derive(Debug)). -/
def CommandError.debug : CommandError → Str
  | .unknownCommand s => str "UnknownCommand(" ++ debugStr s ++ str ")"
  | .unknownSubcommand c s =>
    str "UnknownSubcommand(" ++ c.debug ++ str ", " ++ debugStr s ++ str ")"
  | .needMoreParams c => str "NeedMoreParams(" ++ c.debug ++ str ")"
  | .parameterDoesntMatch c i =>
    str "ParameterDoesntMatch(" ++ c.debug ++ str ", " ++ natToStr i ++ str ")"
  | .wrongParameter c i =>
    str "WrongParameter(" ++ c.debug ++ str ", " ++ natToStr i ++ str ")"
  | .unknownMode i c ch =>
    str "UnknownMode(" ++ natToStr i ++ str ", " ++ debugChar c ++ str ", " ++ debugStr ch ++
      str ")"
  | .unknownUModeFlag i => str "UnknownUModeFlag(" ++ natToStr i ++ str ")"
  | .invalidModeParam target modechar param description =>
    str "InvalidModeParam { target: " ++ debugStr target ++ str ", modechar: " ++
      debugChar modechar ++ str ", param: " ++ debugStr param ++ str ", description: " ++
      debugStr description ++ str " }"

/-! ### parse_from_message -/

/-- `s.starts_with('+') || s.starts_with('-')`. -/
def startsPlusMinus (s : Str) : Bool := startsWithChar '+' s || startsWithChar '-' s

/-- the `for s in param_it` loop of the MODE arm: current modestring, its collected
    arguments (reversed), remaining params. -/
def groupModes : Str → List Str → List Str → List (Str × List Str)
  | ms, acc, [] => [(ms, acc.reverse)]
  | ms, acc, s :: rest =>
    if startsPlusMinus s then (ms, acc.reverse) :: groupModes s [] rest
    else groupModes ms (s :: acc) rest

def splitComma (s : Str) : List Str := splitOnChar ',' s

/-- `x.parse::<uN>()` then `Err(_) => WrongParameter(..)`. -/
def parseNumParam (max : Nat) (s : Str) (e : CommandError) : Except CommandError Nat :=
  match parseUnsigned max s with
  | .ok v => .ok v
  | .error _ => .error e

open CommandError in
/-- command.rs `Command::parse_from_message`. -/
def Command.parseFromMessage (m : Message) : Except CommandError Command :=
  let verb := asciiUpper m.command
  let ps := m.params
  match CmdId.ofName? verb with
  | none => .error (unknownCommand verb)        -- note: the UPPERCASED verb
  | some id =>
    match id with
    | .CAP =>
      match ps with
      | [] => .error (needMoreParams .CAP)
      | p0 :: rest =>
        let sub := asciiUpper p0
        if sub = str "LS" then
          match rest with
          | [] => .ok (.CAP .LS none none)
          | s :: _ =>
            match parseNumParam u32Max s (wrongParameter .CAP 1) with
            | .ok v => .ok (.CAP .LS none (some v))
            | .error e => .error e
        else if sub = str "LIST" then .ok (.CAP .LIST none none)
        else if sub = str "REQ" then
          .ok (.CAP .REQ (rest.head?.map splitAsciiWhitespace) none)
        else if sub = str "END" then .ok (.CAP .END none none)
        else .error (unknownSubcommand .CAP p0)
    | .AUTHENTICATE => .ok .AUTHENTICATE
    | .PASS =>
      match ps with
      | p0 :: _ => .ok (.PASS p0)
      | _ => .error (needMoreParams .PASS)
    | .NICK =>
      match ps with
      | p0 :: _ => .ok (.NICK p0)
      | _ => .error (needMoreParams .NICK)
    | .USER =>
      match ps with
      | p0 :: p1 :: p2 :: p3 :: _ => .ok (.USER p0 p1 p2 p3)
      | _ => .error (needMoreParams .USER)
    | .PING =>
      match ps with
      | p0 :: _ => .ok (.PING p0)
      | _ => .error (needMoreParams .PING)
    | .PONG =>
      match ps with
      | p0 :: _ => .ok (.PONG p0)
      | _ => .error (needMoreParams .PONG)
    | .OPER =>
      match ps with
      | p0 :: p1 :: _ => .ok (.OPER p0 p1)
      | _ => .error (needMoreParams .OPER)
    | .QUIT => .ok .QUIT
    | .JOIN =>
      match ps with
      | [] => .error (needMoreParams .JOIN)
      | p0 :: rest =>
        let channels := splitComma p0
        let keys := rest.head?.map splitComma
        match keys with
        | some ks =>
          if ks.length ≠ channels.length then .error (parameterDoesntMatch .JOIN 1)
          else .ok (.JOIN channels keys)
        | none => .ok (.JOIN channels keys)
    | .PART =>
      match ps with
      | [] => .error (needMoreParams .PART)
      | p0 :: rest => .ok (.PART (splitComma p0) rest.head?)
    | .TOPIC =>
      match ps with
      | [] => .error (needMoreParams .TOPIC)
      | p0 :: rest => .ok (.TOPIC p0 rest.head?)
    | .NAMES =>
      match ps with
      | [] => .ok (.NAMES [])
      | p0 :: _ => .ok (.NAMES (splitComma p0))
    | .LIST =>
      match ps with
      | [] => .ok (.LIST [] none)
      | p0 :: rest => .ok (.LIST (splitComma p0) rest.head?)
    | .INVITE =>
      match ps with
      | p0 :: p1 :: _ => .ok (.INVITE p0 p1)
      | _ => .error (needMoreParams .INVITE)
    | .KICK =>
      match ps with
      | p0 :: p1 :: rest => .ok (.KICK p0 (splitComma p1) rest.head?)
      | _ => .error (needMoreParams .KICK)
    | .MOTD => .ok (.MOTD ps.head?)
    | .VERSION => .ok (.VERSION ps.head?)
    | .ADMIN => .ok (.ADMIN ps.head?)
    | .CONNECT =>
      match ps with
      | [] => .error (needMoreParams .CONNECT)
      | [p0] => .ok (.CONNECT p0 none none)
      | p0 :: p1 :: rest =>
        match parseNumParam u16Max p1 (wrongParameter .CONNECT 1) with
        | .ok port => .ok (.CONNECT p0 (some port) rest.head?)
        | .error e => .error e
    | .LUSERS => .ok .LUSERS
    | .TIME => .ok (.TIME ps.head?)
    | .STATS =>
      match ps with
      | [] => .error (needMoreParams .STATS)
      | q :: rest =>
        -- `query_str.len() == 1` is a BYTE length
        match q with
        | c :: _ => if utf8Len q = 1 then .ok (.STATS c rest.head?)
                    else .error (wrongParameter .STATS 0)
        | [] => .error (wrongParameter .STATS 0)
    | .LINKS =>
      match ps with
      | [p0, p1] => .ok (.LINKS (some p0) (some p1))
      | [p0] => .ok (.LINKS none (some p0))
      | _ => .ok (.LINKS none none)               -- also for 3 or more params
    | .HELP => .ok (.HELP ps.head?)
    | .INFO => .ok .INFO
    | .MODE =>
      match ps with
      | [] => .error (needMoreParams .MODE)
      | [target] => .ok (.MODE target [])
      | target :: s :: rest =>
        if startsPlusMinus s then .ok (.MODE target (groupModes s [] rest))
        else .error (wrongParameter .MODE 1)
    | .PRIVMSG =>
      match ps with
      | p0 :: p1 :: _ => .ok (.PRIVMSG (splitComma p0) p1)
      | _ => .error (needMoreParams .PRIVMSG)
    | .NOTICE =>
      match ps with
      | p0 :: p1 :: _ => .ok (.NOTICE (splitComma p0) p1)
      | _ => .error (needMoreParams .NOTICE)
    | .WHO =>
      match ps with
      | p0 :: _ => .ok (.WHO p0)
      | _ => .error (needMoreParams .WHO)
    | .WHOIS =>
      match ps with
      | [] => .error (needMoreParams .WHOIS)
      | [p0] => .ok (.WHOIS none (splitComma p0))
      | p0 :: p1 :: _ => .ok (.WHOIS (some p0) (splitComma p1))
    | .WHOWAS =>
      match ps with
      | [] => .error (needMoreParams .WHOWAS)
      | [p0] => .ok (.WHOWAS p0 none none)
      | p0 :: p1 :: rest =>
        match parseNumParam usizeMax p1 (wrongParameter .WHOWAS 1) with
        | .ok n => .ok (.WHOWAS p0 (some n) rest.head?)
        | .error e => .error e
    | .KILL =>
      match ps with
      | p0 :: p1 :: _ => .ok (.KILL p0 p1)
      | _ => .error (needMoreParams .KILL)
    | .REHASH => .ok .REHASH
    | .RESTART => .ok .RESTART
    | .SQUIT =>
      match ps with
      | p0 :: p1 :: _ => .ok (.SQUIT p0 p1)
      | _ => .error (needMoreParams .SQUIT)
    | .AWAY => .ok (.AWAY ps.head?)
    | .USERHOST =>
      match ps with
      | [] => .error (needMoreParams .USERHOST)
      | _ => .ok (.USERHOST ps)
    | .WALLOPS =>
      match ps with
      | p0 :: _ => .ok (.WALLOPS p0)
      | _ => .error (needMoreParams .WALLOPS)
    | .ISON =>
      match ps with
      | [] => .error (needMoreParams .ISON)
      | _ => .ok (.ISON ps)
    | .DIE => .ok (.DIE ps.head?)

/-! ### validate_usermodes / validate_channelmodes (utils.rs) -/

def isUModeChar (c : Char) : Bool :=
  c == '+' || c == '-' || c == 'i' || c == 'o' || c == 'O' || c == 'r' || c == 'w'

open CommandError in
/-- utils.rs `validate_usermodes`; first argument is `param_idx` (starts at 1). -/
def validateUsermodesFrom : Nat → List (Str × List Str) → Except CommandError Unit
  | _, [] => .ok ()
  | paramIdx, (ms, margs) :: rest =>
    if !ms.isEmpty then
      if ms.any (fun c => !isUModeChar c) then .error (unknownUModeFlag paramIdx)
      else if !margs.isEmpty then .error (wrongParameter .MODE paramIdx)
      else validateUsermodesFrom (paramIdx + 1) rest
    else .error (wrongParameter .MODE paramIdx)

def validateUsermodes (modes : List (Str × List Str)) : Except CommandError Unit :=
  validateUsermodesFrom 1 modes

def noArgument : Str := str "No argument"
def unexpectedArgument : Str := str "Unexpected argument"

open CommandError in
/-- the `ms.chars().try_for_each` of `validate_channelmodes`: `mode_set`, the not yet
    consumed arguments (`margs_it`), remaining mode chars.  (`arg_param_idx` is computed by
    the Rust code but never used.) -/
def chanModeChars (target : Str) (paramIdx : Nat) : Bool → List Str → Str →
    Except CommandError Unit
  | _, _, [] => .ok ()
  | modeSet, args, c :: cs =>
    if c == '+' then chanModeChars target paramIdx true args cs
    else if c == '-' then chanModeChars target paramIdx false args cs
    else if c == 'b' || c == 'e' || c == 'I' then
      chanModeChars target paramIdx modeSet (args.drop 1) cs     -- consumed if present
    else if c == 'o' || c == 'v' || c == 'h' || c == 'q' || c == 'a' then
      match args with
      | arg :: args' =>
        match validateUsernameErr arg with
        | some code => .error (invalidModeParam target c arg (validationErrorToString code))
        | none => chanModeChars target paramIdx modeSet args' cs
      | [] => .error (invalidModeParam target c [] noArgument)
    else if c == 'l' then
      if modeSet then
        match args with
        | arg :: args' =>
          match parseUnsigned usizeMax arg with
          | .error e => .error (invalidModeParam target c arg e.render)
          | .ok _ => chanModeChars target paramIdx modeSet args' cs
        | [] => .error (invalidModeParam target c [] noArgument)
      else
        match args with
        | arg :: _ => .error (invalidModeParam target c arg unexpectedArgument)
        | [] => chanModeChars target paramIdx modeSet [] cs
    else if c == 'k' then
      if modeSet then
        match args with
        | _ :: args' => chanModeChars target paramIdx modeSet args' cs
        | [] => .error (invalidModeParam target c [] noArgument)
      else
        match args with
        | arg :: _ => .error (invalidModeParam target c arg unexpectedArgument)
        | [] => chanModeChars target paramIdx modeSet [] cs
    else if c == 'i' || c == 'm' || c == 't' || c == 'n' || c == 's' then
      chanModeChars target paramIdx modeSet args cs
    else .error (unknownMode paramIdx c target)

open CommandError in
/-- utils.rs `validate_channelmodes`; second argument is `param_idx` (starts at 1,
    advances by `margs.len() + 1`). -/
def validateChannelmodesFrom (target : Str) : Nat → List (Str × List Str) →
    Except CommandError Unit
  | _, [] => .ok ()
  | paramIdx, (ms, margs) :: rest =>
    if !ms.isEmpty then
      match chanModeChars target paramIdx false margs ms with
      | .error e => .error e
      | .ok () => validateChannelmodesFrom target (paramIdx + (margs.length + 1)) rest
    else .error (wrongParameter .MODE paramIdx)

def validateChannelmodes (target : Str) (modes : List (Str × List Str)) :
    Except CommandError Unit :=
  validateChannelmodesFrom target 1 modes

/-! ### validate -/

/-- `if cond { Ok(()) } else { Err(e) }`. -/
def check (cond : Bool) (e : CommandError) : Except CommandError Unit :=
  if cond then .ok () else .error e

/-- `xs.iter().try_for_each(|x| f(x)).map_err(|_| e)`. -/
def checkAll (f : Str → Bool) (xs : List Str) (e : CommandError) : Except CommandError Unit :=
  check (xs.all f) e

/-- `if let Some(x) = o { f(x, e)?; }`. -/
def checkOpt (f : Str → Bool) (o : Option Str) (e : CommandError) : Except CommandError Unit :=
  match o with
  | some x => check (f x) e
  | none => .ok ()

/-- USERHOST: `enumerate().try_for_each(|(i, n)| validate_username(n).map_err(WrongParameter(.., i)))`. -/
def checkUserhost : Nat → List Str → Except CommandError Unit
  | _, [] => .ok ()
  | i, n :: ns =>
    if validateUsername n then checkUserhost (i + 1) ns
    else .error (.wrongParameter .USERHOST i)

def isStatsQuery (c : Char) : Bool :=
  c == 'c' || c == 'h' || c == 'i' || c == 'k' || c == 'l' || c == 'm' || c == 'o' ||
  c == 'u' || c == 'y'

open CommandError in
/-- command.rs `Command::validate`. -/
def Command.validate : Command → Except CommandError Unit
  | .CAP _ _ version =>
    match version with
    | some v => check (decide (¬ v < 302)) (wrongParameter .CAP 1)
    | none => .ok ()
  | .NICK nickname => check (validateUsername nickname) (wrongParameter .NICK 0)
  | .USER username _ _ _ => check (validateUsername username) (wrongParameter .USER 0)
  | .OPER name _ => check (validateUsername name) (wrongParameter .OPER 0)
  | .JOIN channels _ => checkAll validateChannel channels (wrongParameter .JOIN 0)
  | .PART channels _ => checkAll validateChannel channels (wrongParameter .PART 0)
  | .TOPIC channel _ => check (validateChannel channel) (wrongParameter .TOPIC 0)
  | .NAMES channels => checkAll validateChannel channels (wrongParameter .NAMES 0)
  | .LIST channels server => do
    checkAll validateChannel channels (wrongParameter .LIST 0)
    checkOpt validateServer server (wrongParameter .LIST 1)
  | .INVITE nickname channel => do
    check (validateUsername nickname) (wrongParameter .INVITE 0)
    check (validateChannel channel) (wrongParameter .INVITE 1)
  | .KICK channel users _ => do
    check (validateChannel channel) (wrongParameter .KICK 0)
    checkAll validateUsername users (wrongParameter .KICK 1)
  | .MOTD target => checkOpt validateServerMask target (wrongParameter .MOTD 0)
  | .VERSION target => checkOpt validateServerMask target (wrongParameter .VERSION 0)
  | .ADMIN target => checkOpt validateServerMask target (wrongParameter .ADMIN 0)
  | .CONNECT targetServer _ remoteServer => do
    check (validateServer targetServer) (wrongParameter .CONNECT 0)
    checkOpt validateServer remoteServer (wrongParameter .CONNECT 1)
  | .TIME server => checkOpt validateServer server (wrongParameter .TIME 0)
  | .STATS query server =>
    if isStatsQuery query then checkOpt validateServer server (wrongParameter .STATS 1)
    else .error (wrongParameter .STATS 0)
  | .LINKS remoteServer serverMask =>
    match remoteServer with
    | some s => do
      check (validateServer s) (wrongParameter .LINKS 0)
      checkOpt validateServerMask serverMask (wrongParameter .LINKS 1)
    | none => checkOpt validateServerMask serverMask (wrongParameter .LINKS 0)
  | .MODE target modes =>
    if validateChannel target then validateChannelmodes target modes
    else if validateUsername target then validateUsermodes modes
    else .error (wrongParameter .MODE 0)
  | .PRIVMSG targets _ =>
    checkAll (fun n => validateUsername n || validatePrefixedChannel n) targets
      (wrongParameter .PRIVMSG 0)
  | .NOTICE targets _ =>
    checkAll (fun n => validateUsername n || validatePrefixedChannel n) targets
      (wrongParameter .NOTICE 0)
  | .WHOIS target nickmasks =>
    match target with
    | some t => do
      check (validateServer t) (wrongParameter .WHOIS 0)
      checkAll validateUsername nickmasks (wrongParameter .WHOIS 1)
    | none => checkAll validateUsername nickmasks (wrongParameter .WHOIS 0)
  | .WHOWAS nickname _ server => do
    check (validateUsername nickname) (wrongParameter .WHOWAS 0)
    checkOpt validateServer server (wrongParameter .WHOWAS 2)
  | .KILL nickname _ => check (validateUsername nickname) (wrongParameter .KILL 0)
  | .SQUIT server _ => check (validateServer server) (wrongParameter .SQUIT 0)
  | .USERHOST nicknames => checkUserhost 0 nicknames
  | _ => .ok ()

/-- command.rs `Command::from_message`: parse, then validate. -/
def Command.fromMessage (m : Message) : Except CommandError Command :=
  match Command.parseFromMessage m with
  | .ok x =>
    match x.validate with
    | .ok () => .ok x
    | .error e => .error e
  | .error e => .error e

/-! ### `{:?}` of Command -/

def debugNat (n : Nat) : Str := natToStr n

/-- `Name { f1: v1, f2: v2 }`. -/
def debugStruct (name : Str) (fields : List (Str × Str)) : Str :=
  name ++ str " { " ++ joinWith (str ", ") (fields.map (fun f => f.1 ++ str ": " ++ f.2)) ++
    str " }"

def debugModes (modes : List (Str × List Str)) : Str :=
  debugList (fun m => '(' :: debugStr m.1 ++ str ", " ++ debugStrList m.2 ++ [')']) modes

/-- `{:?}` of `Command` (derive(Debug)); the empty braced variants print the bare name. -/
def Command.debug : Command → Str
  | .CAP sub caps version => debugStruct (str "CAP")
      [(str "subcommand", sub.debug), (str "caps", debugOpt debugStrList caps),
       (str "version", debugOpt debugNat version)]
  | .AUTHENTICATE => str "AUTHENTICATE"
  | .PASS p => debugStruct (str "PASS") [(str "password", debugStr p)]
  | .NICK n => debugStruct (str "NICK") [(str "nickname", debugStr n)]
  | .USER u h s r => debugStruct (str "USER")
      [(str "username", debugStr u), (str "hostname", debugStr h),
       (str "servername", debugStr s), (str "realname", debugStr r)]
  | .PING t => debugStruct (str "PING") [(str "token", debugStr t)]
  | .PONG t => debugStruct (str "PONG") [(str "token", debugStr t)]
  | .OPER n p => debugStruct (str "OPER") [(str "name", debugStr n), (str "password", debugStr p)]
  | .QUIT => str "QUIT"
  | .JOIN chs keys => debugStruct (str "JOIN")
      [(str "channels", debugStrList chs), (str "keys", debugOpt debugStrList keys)]
  | .PART chs reason => debugStruct (str "PART")
      [(str "channels", debugStrList chs), (str "reason", debugOpt debugStr reason)]
  | .TOPIC ch topic => debugStruct (str "TOPIC")
      [(str "channel", debugStr ch), (str "topic", debugOpt debugStr topic)]
  | .NAMES chs => debugStruct (str "NAMES") [(str "channels", debugStrList chs)]
  | .LIST chs server => debugStruct (str "LIST")
      [(str "channels", debugStrList chs), (str "server", debugOpt debugStr server)]
  | .INVITE n ch => debugStruct (str "INVITE")
      [(str "nickname", debugStr n), (str "channel", debugStr ch)]
  | .KICK ch users comment => debugStruct (str "KICK")
      [(str "channel", debugStr ch), (str "users", debugStrList users),
       (str "comment", debugOpt debugStr comment)]
  | .MOTD t => debugStruct (str "MOTD") [(str "target", debugOpt debugStr t)]
  | .VERSION t => debugStruct (str "VERSION") [(str "target", debugOpt debugStr t)]
  | .ADMIN t => debugStruct (str "ADMIN") [(str "target", debugOpt debugStr t)]
  | .CONNECT ts port rs => debugStruct (str "CONNECT")
      [(str "target_server", debugStr ts), (str "port", debugOpt debugNat port),
       (str "remote_server", debugOpt debugStr rs)]
  | .LUSERS => str "LUSERS"
  | .TIME s => debugStruct (str "TIME") [(str "server", debugOpt debugStr s)]
  | .STATS q s => debugStruct (str "STATS")
      [(str "query", debugChar q), (str "server", debugOpt debugStr s)]
  | .LINKS rs sm => debugStruct (str "LINKS")
      [(str "remote_server", debugOpt debugStr rs), (str "server_mask", debugOpt debugStr sm)]
  | .HELP s => debugStruct (str "HELP") [(str "subject", debugOpt debugStr s)]
  | .INFO => str "INFO"
  | .MODE target modes => debugStruct (str "MODE")
      [(str "target", debugStr target), (str "modes", debugModes modes)]
  | .PRIVMSG targets text => debugStruct (str "PRIVMSG")
      [(str "targets", debugStrList targets), (str "text", debugStr text)]
  | .NOTICE targets text => debugStruct (str "NOTICE")
      [(str "targets", debugStrList targets), (str "text", debugStr text)]
  | .WHO mask => debugStruct (str "WHO") [(str "mask", debugStr mask)]
  | .WHOIS target nms => debugStruct (str "WHOIS")
      [(str "target", debugOpt debugStr target), (str "nickmasks", debugStrList nms)]
  | .WHOWAS n count server => debugStruct (str "WHOWAS")
      [(str "nickname", debugStr n), (str "count", debugOpt debugNat count),
       (str "server", debugOpt debugStr server)]
  | .KILL n c => debugStruct (str "KILL") [(str "nickname", debugStr n), (str "comment", debugStr c)]
  | .REHASH => str "REHASH"
  | .RESTART => str "RESTART"
  | .SQUIT s c => debugStruct (str "SQUIT") [(str "server", debugStr s), (str "comment", debugStr c)]
  | .AWAY t => debugStruct (str "AWAY") [(str "text", debugOpt debugStr t)]
  | .USERHOST ns => debugStruct (str "USERHOST") [(str "nicknames", debugStrList ns)]
  | .WALLOPS t => debugStruct (str "WALLOPS") [(str "text", debugStr t)]
  | .ISON ns => debugStruct (str "ISON") [(str "nicknames", debugStrList ns)]
  | .DIE m => debugStruct (str "DIE") [(str "message", debugOpt debugStr m)]

/-! ### state/structs.rs helpers -/

/-- `FlagSet<PrivMsgTargetType>` as six bits (Channel=1, Founder=2, Protected=4, Oper=8,
    HalfOper=16, Voice=32). -/
structure TargetType where
  channel : Bool
  founder : Bool
  prot : Bool        -- Rust ChannelProtected (`protected` is a Lean keyword)
  oper : Bool
  halfOper : Bool
  voice : Bool
  deriving DecidableEq, Repr

/-- `out &= !ChannelAll`. -/
def TargetType.cleared : TargetType := ⟨false, false, false, false, false, false⟩

def TargetType.bits (t : TargetType) : Nat :=
  (if t.channel then 1 else 0) + (if t.founder then 2 else 0) + (if t.prot then 4 else 0) +
  (if t.oper then 8 else 0) + (if t.halfOper then 16 else 0) + (if t.voice then 32 else 0)

/-- the byte loop of `get_privmsg_target_type`: `out`, `amp_count`, `last_amp`, remaining
    text.  When `last_amp` holds the previous char was '&', so `&target[i - 1..]` is
    `'&' :: c :: cs`. -/
def privmsgTargetLoop : TargetType → Nat → Bool → Str → TargetType × Str
  | out, _, _, [] => (out, [])
  | out, ampCount, lastAmp, c :: cs =>
    if c == '~' then
      privmsgTargetLoop { out with channel := true, founder := true } ampCount false cs
    else if c == '&' then
      let out' := { out with channel := true, prot := true }
      -- `if i + 1 < target.len()` count the ampersand, otherwise not a channel
      if !cs.isEmpty then privmsgTargetLoop out' (ampCount + 1) true cs
      else (TargetType.cleared, [])
    else if c == '@' then
      privmsgTargetLoop { out with channel := true, oper := true } ampCount false cs
    else if c == '%' then
      privmsgTargetLoop { out with channel := true, halfOper := true } ampCount false cs
    else if c == '+' then
      privmsgTargetLoop { out with channel := true, voice := true } ampCount false cs
    else if c == '#' then
      if !cs.isEmpty then (out, c :: cs) else (TargetType.cleared, [])
    else if lastAmp then
      -- only one ampersand: it is the local-channel prefix, not "protected"
      ((if ampCount < 2 then { out with prot := false } else out), '&' :: c :: cs)
    else (TargetType.cleared, [])

/-- state/structs.rs `get_privmsg_target_type`. -/
def getPrivmsgTargetType (target : Str) : TargetType × Str :=
  privmsgTargetLoop ⟨true, false, false, false, false, false⟩ 0 false target

/-- state/structs.rs `ChannelUserModes::to_string(caps)` on plain booleans
    (`multiPrefix` = `caps.multi_prefix`). -/
def channelUserModesPrefix (multiPrefix founder prot operator halfOper voice : Bool) : Str :=
  let o1 : Str := if founder then ['~'] else []
  let o2 := if (multiPrefix || o1.isEmpty) && prot then o1 ++ ['&'] else o1
  let o3 := if (multiPrefix || o2.isEmpty) && operator then o2 ++ ['@'] else o2
  let o4 := if (multiPrefix || o3.isEmpty) && halfOper then o3 ++ ['%'] else o3
  if (multiPrefix || o4.isEmpty) && voice then o4 ++ ['+'] else o4

/-! ### sanity checks -/

example : Command.fromMessage ⟨none, str "join", [str "#a,#b", str "k,"]⟩ =
    .ok (.JOIN [str "#a", str "#b"] (some [str "k", []])) := by decide
example : Command.fromMessage ⟨none, str "JOIN", [str "#a,#b", str "k"]⟩ =
    .error (.parameterDoesntMatch .JOIN 1) := by decide
example : Command.fromMessage ⟨none, str "CAP", [str "ls", str "301"]⟩ =
    .error (.wrongParameter .CAP 1) := by decide
example : Command.fromMessage ⟨none, str "MODE", [str "#a", str "+o-v", str "x", str "+l"]⟩ =
    .error (.invalidModeParam (str "#a") 'v' [] noArgument) := by decide
example : Command.parseFromMessage ⟨none, str "MODE", [str "#a", str "+o", str "x", str "-k", str "y"]⟩ =
    .ok (.MODE (str "#a") [(str "+o", [str "x"]), (str "-k", [str "y"])]) := by decide
example : Command.fromMessage ⟨none, str "foo", []⟩ = .error (.unknownCommand (str "FOO")) := by
  decide
example : (Command.JOIN [str "#a"] (some [str "k"])).debug =
    str "JOIN { channels: [\"#a\"], keys: Some([\"k\"]) }" := by decide
example : (CommandError.needMoreParams .JOIN).debug = str "NeedMoreParams(JOINId)" := by decide
example : (getPrivmsgTargetType (str "&@&abc")).2 = str "&abc" := by decide
example : (getPrivmsgTargetType (str "~&abc")).1.bits = 3 := by decide
example : channelUserModesPrefix false true false true false true = str "~" := by decide
example : channelUserModesPrefix true true false true false true = str "~@+" := by decide

end Irc
