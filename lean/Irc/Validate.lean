/-
  Irc.Validate — utils.rs validators (validate_source .. validate_prefixed_channel).
  Rust indexes bytes; every byte compared is ASCII, so chars coincide.
-/
import Irc.Text
namespace Irc

/-- utils.rs `validate_source`: no ':' and, when both '!' and '@' occur, the first '!'
    is before the first '@'. -/
def validateSource (s : Str) : Bool :=
  if containsChar ':' s then false
  else
    match findChar '!' s, findChar '@' s with
    | some e, some a => decide (e < a)
    | _, _ => true

/-- first byte is '#' or '&' (`as_bytes()[0] == b'#' || .. == b'&'`). -/
def hasChannelPrefix : Str → Bool
  | [] => false
  | c :: _ => c == '#' || c == '&'

def usernameErrPrefix : Str := str "Username must not have channel prefix."
def usernameErrSpaces : Str :=
  str "Username must not be empty and must not contains spaces, '!' or '@'."
def usernameErrDots : Str := str "Username must not contains '.', ',' or ':'."

/-- the closure in (patched) `validate_username`. -/
def badUsernameChar (c : Char) : Bool :=
  isWhitespace c || isControl c || c == '!' || c == '@'

/-- utils.rs `validate_username` (patched): `none` = Ok, `some code` = the `code` of
    the `ValidationError::new(code)`.  (`to_string()` of that error is
    `validationErrorToString code`.) -/
def validateUsernameErr (u : Str) : Option Str :=
  if !u.isEmpty && hasChannelPrefix u then some usernameErrPrefix
  else if u.isEmpty || u.any badUsernameChar then some usernameErrSpaces
  else if !containsChar '.' u && !containsChar ':' u && !containsChar ',' u then none
  else some usernameErrDots

def validateUsername (u : Str) : Bool := (validateUsernameErr u).isNone

/-- validator 0.14 `impl Display for ValidationError` with `message = None` and empty
    `params`: `"Validation error: {code} [{:?}]"`, the Debug of an empty HashMap is `{}`. -/
def validationErrorToString (code : Str) : Str :=
  str "Validation error: " ++ code ++ str " [{}]"

/-- utils.rs `validate_channel` (true = Ok). -/
def validateChannel (ch : Str) : Bool :=
  !ch.isEmpty && !containsChar ':' ch && !containsChar ',' ch && hasChannelPrefix ch

def channelErr : Str :=
  str "Channel name must have '#' or '&' at start and must not contains ',' or ':'."

/-- utils.rs `validate_server` (true = Ok). -/
def validateServer (s : Str) : Bool := containsChar '.' s

/-- utils.rs `validate_server_mask` (true = Ok). -/
def validateServerMask (s : Str) : Bool := containsChar '.' s || containsChar '*' s

/-- the `for (i, c) in channel.bytes().enumerate()` loop of `validate_prefixed_channel`;
    first argument is `last_amp`; result is `is_channel`. -/
def prefixedChannelLoop : Bool → Str → Bool
  | _, [] => false
  | lastAmp, c :: cs =>
    if c == '~' || c == '@' || c == '%' || c == '+' then prefixedChannelLoop false cs
    else if c == '&' then prefixedChannelLoop true cs
    else if c == '#' then !cs.isEmpty            -- i + 1 < channel.len()
    else lastAmp                                   -- `&` directly before: local channel

/-- utils.rs `validate_prefixed_channel` (true = Ok). -/
def validatePrefixedChannel (ch : Str) : Bool :=
  if !ch.isEmpty && !containsChar ':' ch && !containsChar ',' ch then
    prefixedChannelLoop false ch
  else false

/-! ### sanity checks -/

example : validateSource (str "nick!user@host") = true := by decide
example : validateSource (str "nick@host!user") = false := by decide
example : validateSource (str "a:b") = false := by decide
example : validateUsername (str "bob") = true := by decide
example : validateUsernameErr [] = some usernameErrSpaces := by decide
example : validateUsernameErr (str "#bob") = some usernameErrPrefix := by decide
example : validateUsernameErr (str "b.b") = some usernameErrDots := by decide
example : validateUsername (str "b b") = false := by decide
example : validateChannel (str "#a") = true := by decide
example : validateChannel (str "#a,b") = false := by decide
example : validatePrefixedChannel (str "~&#abc") = true := by decide
example : validatePrefixedChannel (str "@&abc") = true := by decide
example : validatePrefixedChannel (str "@abc") = false := by decide
example : validatePrefixedChannel (str "#") = false := by decide

end Irc
