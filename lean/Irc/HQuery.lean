/-
  Irc.HQuery — `srv_query_cmds.rs`: VERSION, ADMIN, CONNECT, TIME, STATS, LINKS, HELP, INFO,
  MODE (channel and user).  LUSERS and MOTD live in HConn (the welcome burst needs them).
-/
import Irc.HRest
import Irc.Help

namespace Irc

open Reply

def processVersion (cfg : Cfg) (c : Nat) (target : Option Str) (x : Ctx) : Ctx :=
  let client := (x.conn c).clientName
  match target with
  | some _ => unsupported cfg client "VERSION" x
  | none =>
    let x := x.reply cfg (RplVersion351 client pkgDash cfg.name (str "simple IRC server"))
    sendIsupport cfg client x

def processAdmin (cfg : Cfg) (c : Nat) (target : Option Str) (x : Ctx) : Ctx :=
  let client := (x.conn c).clientName
  match target with
  | some _ => unsupported cfg client "ADMIN" x
  | none =>
    let x := x.reply cfg (RplAdminMe256 client cfg.name)
    let x := x.reply cfg (RplAdminLoc1257 client cfg.adminInfo)
    let x := match cfg.adminInfo2 with
      | some i => x.reply cfg (RplAdminLoc2258 client i)
      | none => x
    match cfg.adminEmail with
    | some e => x.reply cfg (RplAdminEmail259 client e)
    | none => x

def processTime (cfg : Cfg) (c : Nat) (server : Option Str) (x : Ctx) : Ctx :=
  let client := (x.conn c).clientName
  match server with
  | some _ => unsupported cfg client "TIME" x
  | none => x.reply cfg (RplTime391 client cfg.name 0 [] (str "DATE"))

def allCmdIds : List CmdId :=
  [.CAP, .AUTHENTICATE, .PASS, .NICK, .USER, .PING, .PONG, .OPER, .QUIT, .JOIN, .PART, .TOPIC,
   .NAMES, .LIST, .INVITE, .KICK, .MOTD, .VERSION, .ADMIN, .CONNECT, .LUSERS, .TIME, .STATS,
   .LINKS, .HELP, .INFO, .MODE, .PRIVMSG, .NOTICE, .WHO, .WHOIS, .WHOWAS, .KILL, .REHASH,
   .RESTART, .SQUIT, .AWAY, .USERHOST, .WALLOPS, .ISON, .DIE]

def processStats (cfg : Cfg) (c : Nat) (stat : Char) (server : Option Str) (x : Ctx) : Ctx :=
  let cn := x.conn c
  let client := cn.clientName
  match server with
  | some _ => unsupported cfg client "STATS" x
  | none =>
    match cn.nick with
    | none => x.panic "stats: own nick unwrap"
    | some nick =>
      match Map.lookup nick x.w.users with
      | none => x.panic "stats: users.get(nick).unwrap"
      | some user =>
        if user.modes.isLocalOper then
          let x :=
            if stat = 'u' then x.reply cfg (RplStatsUptime242 client 0)
            else if stat = 'm' then
              allCmdIds.foldl (fun x id =>
                let n := x.w.cmdCounts.getD id.index 0
                if n != 0 then x.reply cfg (RplStatsCommands212 client id.name n) else x) x
            else x
          x.reply cfg (RplEndOfStats219 client stat)
        else x.reply cfg (ErrNoPrivileges481 client)

def processLinks (cfg : Cfg) (c : Nat) (remote mask : Option Str) (x : Ctx) : Ctx :=
  let client := (x.conn c).clientName
  if remote.isSome || mask.isSome then unsupported cfg client "LINKS" x
  else
    let x := x.reply cfg (RplLinks364 client cfg.name cfg.name 0 cfg.info)
    x.reply cfg (RplEndOfLinks365 client ['*'])

/-- `str::split_terminator('\n')`. -/
def splitTerminator (s : Str) : List Str :=
  let parts := splitOnChar '\n' s
  match parts.getLast? with
  | some [] => parts.dropLast
  | _ => parts

def helpLines (cfg : Cfg) (client subject : Str) : Nat → List Str → Nat → Ctx → Ctx
  | _, [], _, x => x
  | i, line :: rest, total, x =>
    let x := if i + 1 = total then x.reply cfg (RplEndOfHelp706 client subject line)
      else if i = 0 then x.reply cfg (RplHelpStart704 client subject line)
      else x.reply cfg (RplHelpTxt705 client subject line)
    helpLines cfg client subject (i + 1) rest total x

def processHelp (cfg : Cfg) (c : Nat) (subjectOpt : Option Str) (x : Ctx) : Ctx :=
  let client := (x.conn c).clientName
  let subject := subjectOpt.getD (str "MAIN")
  match helpTopics.find? (fun (t, _) => t == subject) with
  | some (_, content) =>
    let lines := splitTerminator content
    helpLines cfg client subject 0 lines lines.length x
  | none => x.reply cfg (ErrHelpNotFound524 client subject)

def processInfo (cfg : Cfg) (c : Nat) (x : Ctx) : Ctx :=
  let client := (x.conn c).clientName
  let x := x.reply cfg (RplInfo371 client pkgSpace)
  x.reply cfg (RplEndOfInfo374 client)

/-! ### channel MODE -/

/-- `Display for ChannelModes`. -/
def ChannelModes.render (m : ChannelModes) : Str :=
  let s : Str := '+' :: m.flagLetters ++ (if m.key.isSome then ['k'] else []) ++
    (if m.clientLimit.isSome then ['l'] else [])
  let s := match m.key with | some k => s ++ ' ' :: k | none => s
  let s := match m.clientLimit with | some l => s ++ ' ' :: natToStr l | none => s
  let add (tag : String) (xs : KSet) (s : Str) : Str :=
    xs.foldl (fun s e => s ++ tag.toList ++ e) s
  let s := add " +b " m.ban s
  let s := add " +e " m.exception s
  let s := add " +I " m.inviteException s
  let s := add " +q " m.founders s
  let s := add " +a " m.protecteds s
  let s := add " +o " m.operators s
  let s := add " +h " m.halfOperators s
  add " +v " m.voices s

/-- `add_operator`/`remove_operator`/... : rank list and member flag together.
    `none` = `users.get_mut(nick).unwrap()` failed. -/
def Channel.setRank (ch : Channel) (letter : Char) (nick : Str) (on : Bool) : Option Channel :=
  match Map.lookup nick ch.users with
  | none => none
  | some chum =>
    let upd (s : KSet) : KSet := if on then KSet.insert nick s else KSet.erase nick s
    let m := ch.modes
    let (m', chum') : ChannelModes × ChanUserModes :=
      if letter = 'o' then ({ m with operators := upd m.operators }, { chum with operator := on })
      else if letter = 'h' then ({ m with halfOperators := upd m.halfOperators }, { chum with halfOper := on })
      else if letter = 'v' then ({ m with voices := upd m.voices }, { chum with voice := on })
      else if letter = 'q' then ({ m with founders := upd m.founders }, { chum with founder := on })
      else if letter = 'a' then ({ m with protecteds := upd m.protecteds }, { chum with prot := on })
      else (m, chum)
    some { ch with modes := m', users := Map.insert nick chum' ch.users }

/-- accumulator of the channel-MODE loop -/
structure ModeAcc where
  x : Ctx
  ch : Channel
  args : List Str
  modeSet : Bool := false
  setStr : Str := []
  unsetStr : Str := []
  paramsStr : Str := []

/-- may the actor change this letter? (the matrix of C08) -/
def mayChange (chum : ChanUserModes) (letter : Char) : Bool :=
  if letter = 'q' then chum.founder
  else if letter = 'a' then chum.isProtected
  else if letter = 'o' || letter = 'h' then chum.isOperator
  else chum.isHalfOperator

def modeChar (cfg : Cfg) (cn : Conn) (target : Str) (chum : ChanUserModes) (a : ModeAcc)
    (mchar : Char) : ModeAcc :=
  let client := cn.clientName
  let nick := cn.nick.getD []
  let err482 (a : ModeAcc) : ModeAcc := { a with x := a.x.reply cfg (ErrChanOpPrivsNeeded482 client target) }
  -- first `match`: privilege pre-check
  let preChecked : Bool := mchar = 'q' || mchar = 'a' || mchar = 'o' || mchar = 'h' || mchar = 'i' ||
    mchar = 'm' || mchar = 't' || mchar = 'n' || mchar = 's' || mchar = 'l' || mchar = 'k' || mchar = 'v'
  let a := if preChecked && !(mayChange chum mchar) then err482 a else a
  let ifHalfOp := chum.isHalfOperator
  let sign : Str := if a.modeSet then str " +" else str " -"
  -- second `match`
  if mchar = '+' then { a with modeSet := true }
  else if mchar = '-' then { a with modeSet := false }
  else if mchar = 'b' then
    match a.args with
    | bmask :: rest =>
      let a := { a with args := rest }
      if ifHalfOp then
        let norm := normalizeSourcemask bmask
        let a := { a with paramsStr := a.paramsStr ++ sign ++ str "b " ++ norm }
        let m := a.ch.modes
        if a.modeSet then
          { a with ch := { a.ch with modes := { m with ban := KSet.insert norm m.ban }
                                     banInfo := Map.insert norm nick a.ch.banInfo } }
        else
          { a with ch := { a.ch with modes := { m with ban := KSet.erase norm m.ban }
                                     banInfo := Map.erase norm a.ch.banInfo } }
      else err482 a
    | [] =>
      let x := a.ch.modes.ban.foldl (fun x b =>
        x.reply cfg (RplBanList367 client target b ((Map.lookup b a.ch.banInfo).getD []) 0)) a.x
      { a with x := x.reply cfg (RplEndOfBanList368 client target) }
  else if mchar = 'e' then
    match a.args with
    | emask :: rest =>
      let a := { a with args := rest }
      if ifHalfOp then
        let norm := normalizeSourcemask emask
        let a := { a with paramsStr := a.paramsStr ++ sign ++ str "e " ++ norm }
        let m := a.ch.modes
        let exc' := if a.modeSet then KSet.insert norm m.exception else KSet.erase norm m.exception
        { a with ch := { a.ch with modes := { m with exception := exc' } } }
      else err482 a
    | [] =>
      let x := a.ch.modes.exception.foldl (fun x e => x.reply cfg (RplExceptList348 client target e)) a.x
      { a with x := x.reply cfg (RplEndOfExceptList349 client target) }
  else if mchar = 'I' then
    match a.args with
    | imask :: rest =>
      let a := { a with args := rest }
      if ifHalfOp then
        let norm := normalizeSourcemask imask
        let a := { a with paramsStr := a.paramsStr ++ sign ++ str "I " ++ norm }
        let m := a.ch.modes
        let ie' := if a.modeSet then KSet.insert norm m.inviteException else KSet.erase norm m.inviteException
        { a with ch := { a.ch with modes := { m with inviteException := ie' } } }
      else err482 a
    | [] =>
      let x := a.ch.modes.inviteException.foldl (fun x e => x.reply cfg (RplInviteList346 client target e)) a.x
      { a with x := x.reply cfg (RplEndOfInviteList347 client target) }
  else if mchar = 'o' || mchar = 'v' || mchar = 'h' || mchar = 'q' || mchar = 'a' then
    match a.args with
    | [] => { a with x := a.x.panic "mode: rank letter without argument" }
    | arg :: rest =>
      let a := { a with args := rest }
      if Map.contains arg a.ch.users then
        if mayChange chum mchar then
          (match a.ch.setRank mchar arg a.modeSet with
           | some ch' => { a with ch := ch', paramsStr := a.paramsStr ++ sign ++ [mchar, ' '] ++ arg }
           | none => { a with x := a.x.panic "mode: add/remove rank unwrap" })
        else a
      else { a with x := a.x.reply cfg (ErrUserNotInChannel441 client arg target) }
  else if mchar = 'l' then
    if ifHalfOp then
      if a.modeSet then
        (match a.args with
        | [] => { a with x := a.x.panic "mode: +l without argument" }
        | arg :: rest =>
          match parseUnsigned usizeMax arg with
          | .ok n =>
            let m := a.ch.modes
            { a with args := rest, paramsStr := a.paramsStr ++ str " +l " ++ arg
                     ch := { a.ch with modes := { m with clientLimit := some n } } }
          | .error _ => { a with args := rest, x := a.x.panic "mode: +l parse unwrap" })
      else
        let m := a.ch.modes
        { a with unsetStr := a.unsetStr ++ ['l'], ch := { a.ch with modes := { m with clientLimit := none } } }
    else a
  else if mchar = 'k' then
    if ifHalfOp then
      if a.modeSet then
        (match a.args with
        | [] => { a with x := a.x.panic "mode: +k without argument" }
        | arg :: rest =>
          let m := a.ch.modes
          { a with args := rest, paramsStr := a.paramsStr ++ str " +k " ++ arg
                   ch := { a.ch with modes := { m with key := some arg } } })
      else
        let m := a.ch.modes
        { a with unsetStr := a.unsetStr ++ ['k'], ch := { a.ch with modes := { m with key := none } } }
    else a
  else if mchar = 'i' || mchar = 'm' || mchar = 't' || mchar = 'n' || mchar = 's' then
    if ifHalfOp then
      let m := a.ch.modes
      let m' : ChannelModes :=
        if mchar = 'i' then { m with inviteOnly := a.modeSet }
        else if mchar = 'm' then { m with moderated := a.modeSet }
        else if mchar = 't' then { m with protectedTopic := a.modeSet }
        else if mchar = 'n' then { m with noExternalMessages := a.modeSet }
        else { m with secret := a.modeSet }
      let a := { a with ch := { a.ch with modes := m' } }
      if a.modeSet then { a with setStr := a.setStr ++ [mchar] }
      else { a with unsetStr := a.unsetStr ++ [mchar] }
    else a
  else a

def modeGroup (cfg : Cfg) (cn : Conn) (target : Str) (chum : ChanUserModes) (a : ModeAcc)
    (g : Str × List Str) : ModeAcc :=
  g.1.foldl (modeChar cfg cn target chum) { a with args := g.2, modeSet := false }

/-- the announcement text built from the three accumulators. -/
def modeAnnouncement (target setStr unsetStr paramsStr : Str) : Option Str :=
  if setStr.isEmpty && unsetStr.isEmpty && paramsStr.isEmpty then none else
  let ms : Str := (if !setStr.isEmpty then '+' :: setStr else []) ++
                  (if !unsetStr.isEmpty then '-' :: unsetStr else [])
  let ms := if !paramsStr.isEmpty then
      (if !ms.isEmpty then ms ++ ' ' :: paramsStr.drop 1 else paramsStr.drop 1)
    else ms
  some (str "MODE " ++ target ++ ' ' :: ms)

def processModeChannel (cfg : Cfg) (c : Nat) (target : Str) (ch : Channel)
    (modes : List (Str × List Str)) (chum : ChanUserModes) (x : Ctx) : Ctx :=
  let cn := x.conn c
  let client := cn.clientName
  if modes.isEmpty then
    let x := x.reply cfg (RplChannelModeIs324 client target ch.modes.render)
    x.reply cfg (RplCreationTime329 client target 0)
  else
    let a := modes.foldl (modeGroup cfg cn target chum) { x := x, ch := ch, args := [] }
    let x := a.x.modifyW (fun w => { w with channels := Map.insert target a.ch w.channels })
    match modeAnnouncement target a.setStr a.unsetStr a.paramsStr with
    | some line => (Map.keys a.ch.users).foldl (fun x n => x.sendDisplay n cn.source line) x
    | none => x

/-! ### user MODE -/

structure UModeAcc where
  x : Ctx
  modes : UserModes
  modeSet : Bool := false
  setStr : Str := []
  unsetStr : Str := []

def umodeChar (cfg : Cfg) (cn : Conn) (nick : Str) (a : UModeAcc) (mchar : Char) : UModeAcc :=
  let client := cn.clientName
  let m := a.modes
  if mchar = '+' then { a with modeSet := true }
  else if mchar = '-' then { a with modeSet := false }
  else if mchar = 'i' then
    if a.modeSet then
      if !m.invisible then
        { a with modes := { m with invisible := true }, setStr := a.setStr ++ ['i']
                 x := a.x.modifyW (fun w => { w with invisibleCount := w.invisibleCount + 1 }) }
      else a
    else if m.invisible then
      { a with modes := { m with invisible := false }, unsetStr := a.unsetStr ++ ['i']
               x := a.x.modifyW (fun w =>
                 if w.invisibleCount = 0 then w.panic "mode -i: invisible_users_count underflow"
                 else { w with invisibleCount := w.invisibleCount - 1 }) }
    else a
  else if mchar = 'r' then
    if a.modeSet then
      if !m.registered then
        if cn.registered then { a with modes := { m with registered := true }, setStr := a.setStr ++ ['r'] }
        else { a with x := a.x.reply cfg (ErrNoPrivileges481 client) }
      else a
    else if m.registered then
      { a with modes := { m with registered := false }, unsetStr := a.unsetStr ++ ['r']
               x := a.x.reply cfg (ErrYourConnRestricted484 client) }
    else a
  else if mchar = 'w' then
    if a.modeSet then
      if !m.wallops then
        { a with modes := { m with wallops := true }, setStr := a.setStr ++ ['w']
                 x := a.x.modifyW (fun w => { w with wallops := KSet.insert nick w.wallops }) }
      else a
    else if m.wallops then
      { a with modes := { m with wallops := false }, unsetStr := a.unsetStr ++ ['w']
               x := a.x.modifyW (fun w => { w with wallops := KSet.erase nick w.wallops }) }
    else a
  else if mchar = 'o' then
    if a.modeSet then
      if !m.oper then { a with x := a.x.reply cfg (ErrNoPrivileges481 client) } else a
    else if m.oper then
      let a := { a with modes := { m with oper := false } }
      if !m.localOper then
        { a with unsetStr := a.unsetStr ++ ['o']
                 x := a.x.modifyW (fun w =>
                   if w.operatorsCount = 0 then w.panic "mode -o: operators_count underflow"
                   else { w with operatorsCount := w.operatorsCount - 1 }) }
      else a
    else a
  else if mchar = 'O' then
    if a.modeSet then
      if !m.localOper then { a with x := a.x.reply cfg (ErrNoPrivileges481 client) } else a
    else if m.oper then
      let a := { a with modes := { m with oper := false }, unsetStr := a.unsetStr ++ ['O'] }
      if !m.localOper then
        { a with x := a.x.modifyW (fun w =>
                   if w.operatorsCount = 0 then w.panic "mode -O: operators_count underflow"
                   else { w with operatorsCount := w.operatorsCount - 1 }) }
      else a
    else a
  else a

def processModeUser (cfg : Cfg) (c : Nat) (target : Str) (modes : List (Str × List Str))
    (x : Ctx) : Ctx :=
  let cn := x.conn c
  let client := cn.clientName
  match Map.lookup target x.w.users with
  | none => x.panic "mode: users.get_mut(target).unwrap"
  | some user =>
    if modes.isEmpty then x.reply cfg (RplUModeIs221 client user.modes.render)
    else
      let a := modes.foldl (fun a g =>
        g.1.foldl (umodeChar cfg cn target) { a with modeSet := false })
        { x := x, modes := user.modes : UModeAcc }
      let x := a.x.modifyW (fun w =>
        { w with users := Map.modify target (fun u => { u with modes := a.modes }) w.users })
      if !a.setStr.isEmpty || !a.unsetStr.isEmpty then
        let ms : Str := (if !a.setStr.isEmpty then '+' :: a.setStr else []) ++
                        (if !a.unsetStr.isEmpty then '-' :: a.unsetStr else [])
        x.replySrc cn.source (str "MODE " ++ target ++ ' ' :: ms)
      else x

def processMode (cfg : Cfg) (c : Nat) (target : Str) (modes : List (Str × List Str)) (x : Ctx) : Ctx :=
  let cn := x.conn c
  let client := cn.clientName
  match cn.nick with
  | none => x.panic "mode: own nick unwrap"
  | some nick =>
    if validateChannel target then
      match Map.lookup target x.w.channels with
      | some ch =>
        match Map.lookup nick ch.users with
        | some chum => processModeChannel cfg c target ch modes chum x
        | none => x.reply cfg (ErrNotOnChannel442 client target)
      | none => x.reply cfg (ErrNoSuchChannel403 client target)
    else if nick == target then processModeUser cfg c target modes x
    else if Map.contains target x.w.users then x.reply cfg (ErrUsersDontMatch502 client)
    else x.reply cfg (ErrNoSuchNick401 client target)

end Irc
