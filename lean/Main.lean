/-
  ircmodel — line-protocol driver of the Lean model (DESIGN.md 4.2).

    ircmodel run <ops-file>     print the model transcript of every sequence in the file,
                                in the format of `irc-harness run`
    ircmodel fn  <calls-file>   pure-function mode, format of `irc-harness fn`
    ircmodel inv <transcript>   `invCheck` of the state of every `op` block of a transcript
                                (the implementation's or the model's): one line per block
    ircmodel stepfrom <ops-file> <transcript>
                                the transcript in which EVERY operation k is the model's `step`
                                from the state that <transcript> (the implementation's run of
                                <ops-file>) shows after operation k-1 (`Irc.Load`)
-/
import Irc
import Irc.Timer
import Irc.Config
import Irc.Load
import Std.Data.HashMap

open Irc

def toS (s : Str) : String := String.ofList s

def words (line : String) : List Str := splitOnChar ' ' line.toList

def natOf (s : Str) : Nat := (parseDigits s).getD 0

def optOf (s : Str) : Option Str :=
  match s with
  | '-' :: _ => none
  | _ :: rest => some (unesc rest)
  | [] => none

def modesOf (m : Str) : UserModes :=
  { invisible := containsChar 'i' m, oper := containsChar 'o' m, localOper := containsChar 'O' m,
    registered := containsChar 'r' m, wallops := containsChar 'w' m }

/-- apply one `cfg ...` line (tokens after the word `cfg`). -/
def applyCfg (cfg : Cfg) (t : List Str) : Cfg :=
  match t with
  | [k, v] =>
    let key := toS k
    if key == "name" then { cfg with name := unesc v }
    else if key == "network" then { cfg with network := unesc v }
    else if key == "info" then { cfg with info := unesc v }
    else if key == "admin_info" then { cfg with adminInfo := unesc v }
    else if key == "admin_info2" then { cfg with adminInfo2 := some (unesc v) }
    else if key == "admin_email" then { cfg with adminEmail := some (unesc v) }
    else if key == "motd" then { cfg with motd := unesc v }
    else if key == "password" then { cfg with password := some (unesc v) }
    else if key == "max_connections" then { cfg with maxConnections := some (natOf v) }
    else if key == "max_joins" then { cfg with maxJoins := some (natOf v) }
    else if key == "dum" then { cfg with defaultUserModes := modesOf (unesc v) }
    else cfg
  | [k, a, b, c] =>
    if toS k == "oper" then
      { cfg with operators := cfg.operators ++ [{ name := unesc a, password := unesc b, mask := optOf c }] }
    else cfg
  | [k, a, b, c, d] =>
    if toS k == "user" then
      { cfg with users := cfg.users ++ [{ name := unesc a, nick := unesc b, password := optOf c, mask := optOf d }] }
    else cfg
  | [k, name, topic, flags, key, limit, ban, exc, invex, q, a, o, h, v] =>
    if toS k == "chan" then
      let f := unesc flags
      let modes : ChannelModes :=
        { ban := unescList ban, exception := unescList exc, inviteException := unescList invex,
          clientLimit := (match limit with | '-' :: _ => none | _ :: r => some (natOf r) | [] => none),
          key := optOf key,
          founders := unescList q, protecteds := unescList a, operators := unescList o,
          halfOperators := unescList h, voices := unescList v,
          inviteOnly := containsChar 'i' f, moderated := containsChar 'm' f,
          secret := containsChar 's' f, protectedTopic := containsChar 't' f,
          noExternalMessages := containsChar 'n' f }
      { cfg with channels := cfg.channels ++ [{ name := unesc name, topic := optOf topic, modes := modes }] }
    else cfg
  | _ => cfg

def parseEvent (t : List Str) : Option Event :=
  match t with
  | [k, c, a] =>
    let key := toS k
    if key == "connect" then some (.connect (natOf c) a)
    else if key == "line" then some (.line (natOf c) (unesc a))
    else if key == "toolong" then some (.tooLong (natOf c))
    else if key == "partial" then some (.partialLine (natOf c) (unesc a))
    else none
  | [k, c] =>
    let key := toS k
    if key == "badutf8" then some (.badUtf8 (natOf c))
    else if key == "eof" then some (.eof (natOf c))
    else if key == "reset" then some (.reset (natOf c))
    else none
  | _ => none

def printBlock (k : Nat) (op : String) (so : StepOut) : IO Unit := do
  IO.println s!"op {k} {op}"
  for e in so.events do IO.println s!"ev {toS e}"
  -- per connection, ascending id (the harness reads its sockets in that order)
  let ids := (so.outs.map (·.1)).eraseDups
  let ids := ids.toArray.qsort (· < ·) |>.toList
  for c in ids do
    for (c', l) in so.outs do
      if c' == c then IO.println s!"out {c} {toS (esc l)}"
  for l in dumpWorld so.w do IO.println (toS l)
  match so.w.panicked with
  | some site => IO.println s!"ev panic-model {toS (esc site)}"
  | none => pure ()
  for v in invCheck so.w do IO.println s!"ev inv-violated {v}"
  IO.println "endop"

def runFile (path : String) : IO Unit := do
  let content ← IO.FS.readFile path
  let mut cfg : Cfg := {}
  let mut ops : Array String := #[]
  let mut inSeq := false
  for raw in content.splitOn "\n" do
    let line := if raw.endsWith "\r" then (raw.dropEnd 1).toString else raw
    if line.isEmpty || line.startsWith "#" then continue
    if line.startsWith "seq " then
      cfg := {}; ops := #[]; inSeq := false
      IO.println line
    else if line.startsWith "cfg " then
      cfg := applyCfg cfg ((words line).drop 1)
    else if line == "begin" then inSeq := true
    else if line == "end" then
      let mut w := World.init cfg
      printBlock 0 "init" { w := w }
      let mut k := 0
      for op in ops do
        k := k + 1
        match parseEvent (words op) with
        | some ev =>
          let so := step cfg w ev
          printBlock k op so
          w := so.w
          if so.w.panicked.isSome then
            IO.println "aborted"
            break
        | none =>
          IO.println s!"op {k} {op}"
          IO.println "ev unknown-op"
          IO.println "endop"
      IO.println "endseq"
      inSeq := false
    else if inSeq then ops := ops.push line

def boolS (b : Bool) : String := if b then "true" else "false"

def hexByte? (a b : Char) : Option Nat :=
  match hexVal? a.toLower, hexVal? b.toLower with
  | some x, some y => some (x * 16 + y)
  | _, _ => none

def hexBytes : Str → List Nat
  | a :: b :: rest => (match hexByte? a b with | some v => [v] | none => []) ++ hexBytes rest
  | _ => []

def frameS : Codec.Frame → String
  | .line s => "L:" ++ toS (esc s)
  | .tooLong => "E:" ++ toS (esc (str "max line length exceeded"))
  | .badUtf8 => "E:" ++ toS (esc (str "Unable to decode input as UTF8"))
  | .bytesRemaining => "E:" ++ toS (esc (str "bytes remaining on stream"))

/-- one pure-function call (format of `irc-harness fn`). -/
def fnCall (t : List Str) : String :=
  match t with
  | f :: args =>
    let a (i : Nat) : Str := unesc (args.getD i [])
    let name := toS f
    if name == "mw" then boolS (matchWildcard (a 0) (a 1))
    else if name == "glob" then boolS (glob (a 0) (a 1))
    else if name == "norm" then toS (esc (normalizeSourcemask (a 0)))
    else if name == "vsrc" then boolS (validateSource (a 0))
    else if name == "vuser" then boolS (validateUsername (a 0))
    else if name == "vchan" then boolS (validateChannel (a 0))
    else if name == "vsrv" then boolS (validateServer (a 0))
    else if name == "vsrvmask" then boolS (validateServerMask (a 0))
    else if name == "vpchan" then boolS (validatePrefixedChannel (a 0))
    else if name == "msg" then
      match Message.parse (a 0) with
      | .ok m => "Ok " ++ toS (esc m.debug)
      | .error e => "Err " ++ toS e.debug
    else if name == "render" then
      match Message.parse (a 0) with
      | .ok m => "Ok " ++ toS (esc (m.render (a 1)))
      | .error e => "Err " ++ toS e.debug
    else if name == "cmd" then
      match Message.parse (a 0) with
      | .ok m =>
        match Command.fromMessage m with
        | .ok c => "Ok " ++ toS (esc c.debug)
        | .error e => "CmdErr " ++ toS (esc e.render)
      | .error e => "Err " ++ toS e.debug
    else if name == "tt" then
      let (tt, s) := getPrivmsgTargetType (a 0)
      toString tt.bits ++ " " ++ toS (esc s)
    else if name == "chum" then
      let bits := natOf (args.getD 0 [])
      let m : ChanUserModes := { founder := bits % 2 == 1, prot := bits / 2 % 2 == 1,
                                 operator := bits / 4 % 2 == 1, halfOper := bits / 8 % 2 == 1,
                                 voice := bits / 16 % 2 == 1 }
      toS (esc (m.prefixStr (args.getD 1 [] == ['1'])))
    else if name == "umodes" then toS (esc (modesOf (a 0)).render)
    else if name == "codec" then
      let max := natOf (args.getD 0 [])
      let chunks := (args.drop 1).map (fun c => if c == ['-'] then [] else hexBytes c)
      let fr := Codec.codecRun max chunks
      if fr.isEmpty then "none" else String.intercalate " " (fr.map frameS)
    else if name == "banned" then
      let m : ChannelModes := { ban := unescList (args.getD 0 []), exception := unescList (args.getD 1 []) }
      boolS (m.banned (a 2))
    else if name == "vhash" then boolS (Config.validPasswordHash (a 0))
    else if name == "configm" then
      -- configm name network listen port pw dns tls opers users chans | cli: listen port name network log dns cert key
      let o (i : Nat) : Option Str := optOf (args.getD i ['-'])
      let rec3 (s : Str) : List Str := splitOnChar '|' s
      let opers : List Config.RawOper := (unescList (args.getD 7 [])).map (fun e =>
        match rec3 e with
        | [n, p, m] => { name := n, password := p, mask := if m == ['-'] then none else some (m.drop 1) }
        | _ => { name := [], password := [] })
      let users : List Config.RawUser := (unescList (args.getD 8 [])).map (fun e =>
        match rec3 e with
        | [n, k, p, m] => { name := n, nick := k,
                            password := if p == ['-'] then none else some (p.drop 1),
                            mask := if m == ['-'] then none else some (m.drop 1) }
        | _ => { name := [], nick := [] })
      let chans : List Config.RawChannel := (unescList (args.getD 9 [])).map (fun n => { name := n })
      let file : Config.RawConfig :=
        { name := a 0, network := a 1, listen := a 2, port := natOf (args.getD 3 []),
          password := o 4, dnsLookup := args.getD 5 [] == ['1'],
          tls := (match o 6 with
                  | some t => (match splitOnChar '|' t with | [c, k] => some (c, k) | _ => none)
                  | none => none),
          operators := opers, users := users, channels := chans }
      let cli : Config.CliOpts :=
        { listen := o 10, port := (o 11).map natOf, name := o 12, network := o 13, logFile := o 14,
          dnsLookup := args.getD 15 [] == ['1'], tlsCert := o 16, tlsKey := o 17 }
      toS (Config.renderResult (Config.loadConfig cli file))
    else "unknown-fn " ++ name
  | [] => "unknown-fn"

def fnFile (path : String) : IO Unit := do
  let content ← IO.FS.readFile path
  for raw in content.splitOn "\n" do
    if raw.isEmpty || raw.startsWith "#" then continue
    IO.println (fnCall (words raw))

/-- timer mode (C17): the discrete-time model `Irc.Timer` driven by the same ops as
    `irc-harness timer`.  Registration is recognised syntactically (the `USER` line of a
    connection that sent `NICK` before, no passwords in these sequences). -/
def timerFile (path : String) : IO Unit := do
  let content ← IO.FS.readFile path
  let mut tcfg : Timer.TCfg := { pingMs := 1000000000, pongMs := 1000000000, fixed := true }
  let mut ops : Array String := #[]
  let mut inSeq := false
  for raw in content.splitOn "\n" do
    let line := if raw.endsWith "\r" then (raw.dropEnd 1).toString else raw
    if line.isEmpty || line.startsWith "#" then continue
    if line.startsWith "seq " then
      tcfg := { pingMs := 1000000000, pongMs := 1000000000, fixed := true }
      ops := #[]; inSeq := false
      IO.println line
    else if line.startsWith "cfg " then
      match (words line).drop 1 with
      | [k, v] =>
        if toS k == "ping_timeout" then tcfg := { tcfg with pingMs := natOf v * 1000 }
        else if toS k == "pong_timeout" then tcfg := { tcfg with pongMs := natOf v * 1000 }
        else if toS k == "fixed" then tcfg := { tcfg with fixed := natOf v != 0 }
      | _ => pure ()
    else if line == "begin" then inSeq := true
    else if line == "end" then
      let mut now : Nat := 0
      let mut sts : List (Nat × Timer.TState) := []
      let mut nicked : List Nat := []
      let mut k := 0
      for op in ops do
        k := k + 1
        IO.println s!"op {k} {op}"
        match words op with
        | [kw, a] =>
          if toS kw == "advance" then
            let ms := natOf a
            let mut sts' : List (Nat × Timer.TState) := []
            for (c, st) in sts do
              let (st', outs) := Timer.tStep tcfg st (.advance ms)
              for o in outs do IO.println s!"tev {c} {toS o.render}"
              sts' := sts' ++ [(c, st')]
            sts := sts'
            now := now + ms
        | [kw, c, txt] =>
          if toS kw == "line" then
            let cid := natOf c
            let (verb, rest) : Str × List Str := match Message.parse (unesc txt) with
              | .ok m => (m.command, m.params)
              | .error _ => ([], [])
            match some verb with
            | some verb =>
              let v := toS (asciiUpper verb)
              if v == "NICK" then nicked := cid :: nicked
              else if v == "USER" then
                if nicked.contains cid && !(sts.any (·.1 == cid)) then
                  sts := sts ++ [(cid, Timer.TState.start tcfg now)]
              else if v == "PONG" then
                sts := sts.map (fun (c', st) => if c' == cid then (c', (Timer.tStep tcfg st .pong).1) else (c', st))
              else if v == "PING" then
                for (c', st) in sts do
                  if c' == cid then
                    match rest with
                    | tok :: _ =>
                      for o in (Timer.tStep tcfg st (.pingCmd tok)).2 do IO.println s!"tev {c'} {toS o.render}"
                    | [] => pure ()     -- PING without parameter: 461, no PONG
            | none => pure ()
        | _ => pure ()
        IO.println "endop"
      IO.println "endseq"
      inSeq := false
    else if inSeq then ops := ops.push line

/-! ### transcripts as input (`inv`, `stepfrom`): streamed line by line -/

/-- a transcript file being read, with one line of push-back. -/
structure TReader where
  h : IO.FS.Handle
  back : IO.Ref (Option String)

def TReader.open (path : String) : IO TReader := do
  return { h := ← IO.FS.Handle.mk path .read, back := ← IO.mkRef none }

/-- next line without its line end; `none` at the end of the file. -/
def TReader.line (r : TReader) : IO (Option String) := do
  match ← r.back.get with
  | some l => r.back.set none; return some l
  | none =>
    let l ← r.h.getLine
    if l.isEmpty then return none
    let l := if l.endsWith "\n" then (l.dropEnd 1).toString else l
    let l := if l.endsWith "\r" then (l.dropEnd 1).toString else l
    return some l

/-- what `inv` / `stepfrom` need of a transcript: the sequence headers and, per `op` block, its
    number and its `st` records (tokens as they stand, `Irc.Load` unescapes). -/
inductive TItem
  | seq (name : String)
  | op (k : Nat) (recs : List (List Str))
  | eof

/-- next item; `cur` = the block being collected.  A block that is cut off (end of file or a
    `seq` line before its `endop`) is dropped. -/
partial def TReader.item (r : TReader) (cur : Option (Nat × Array (List Str)) := none) : IO TItem := do
  match ← r.line with
  | none => return .eof
  | some l =>
    if l.startsWith "st " then
      match cur with
      | some (k, acc) => r.item (some (k, acc.push (words l)))
      | none => r.item none
    else if l.startsWith "out " then r.item cur
    else if l == "endop" then
      match cur with
      | some (k, acc) => return .op k acc.toList
      | none => r.item none
    else if l.startsWith "op " then
      r.item (some (natOf ((l.toList.drop 3).takeWhile (· != ' ')), #[]))
    else if l.startsWith "seq " then
      match cur with
      | some _ => r.back.set (some l); r.item none
      | none => return .seq (l.drop 4).toString
    else r.item cur

/-- `ircmodel inv <transcript>`. -/
def invFile (path : String) : IO Unit := do
  let r ← TReader.open path
  let mut name := ""
  repeat
    match ← r.item with
    | .eof => break
    | .seq n => name := n
    | .op k recs =>
      let bad := invCheck (loadWorld {} recs)
      if bad.isEmpty then IO.println s!"inv {name} {k} ok"
      else IO.println s!"inv {name} {k} FAIL {String.intercalate " " bad}"

/-- the sequences of an ops file: name, configuration, operations (as `runFile` reads them). -/
def parseOpsFile (content : String) : Array (String × Cfg × Array String) := Id.run do
  let mut res : Array (String × Cfg × Array String) := #[]
  let mut name := ""
  let mut cfg : Cfg := {}
  let mut ops : Array String := #[]
  let mut inSeq := false
  for raw in content.splitOn "\n" do
    let line := if raw.endsWith "\r" then (raw.dropEnd 1).toString else raw
    if line.isEmpty || line.startsWith "#" then continue
    if line.startsWith "seq " then
      cfg := {}; ops := #[]; inSeq := false
      name := (line.drop 4).toString
    else if line.startsWith "cfg " then
      cfg := applyCfg cfg ((words line).drop 1)
    else if line == "begin" then inSeq := true
    else if line == "end" then
      res := res.push (name, cfg, ops)
      inSeq := false
    else if inSeq then ops := ops.push line
  return res

/-- `ircmodel stepfrom <ops-file> <transcript>`.  The transcript's sequences are expected in the
    order of the ops file (a subsequence of it: missing ones are allowed, foreign ones are skipped).
    Not printed in the dump, hence not loadable, but read by `STATS m`: the command counters; they are
    threaded through the sequence from the model's own steps. -/
def stepFromFile (opsPath trPath : String) : IO Unit := do
  let seqs := parseOpsFile (← IO.FS.readFile opsPath)
  let mut index : Std.HashMap String Nat := {}
  for i in [0:seqs.size] do
    index := index.insert seqs[i]!.1 i
  let r ← TReader.open trPath
  -- the transcript sequence whose header was read last and whose blocks have not been used
  let mut header : Option String := none
  let mut atEof := false
  for i in [0:seqs.size] do
    let (name, cfg, ops) := seqs[i]!
    IO.println s!"seq {name}"
    let w0 := World.init cfg
    printBlock 0 "init" { w := w0 }
    -- position the transcript on this sequence, unless it is not there
    repeat
      if atEof then break
      match header with
      | some hn =>
        if hn == name then break
        -- a later sequence of the ops file: this one is missing from the transcript
        if (index.get? hn).any (· > i) then break
        header := none
      | none =>
        match ← r.item with
        | .eof => atEof := true
        | .seq n => header := some n
        | .op .. => pure ()
    if header == some name then
      header := none
      let mut counts := w0.cmdCounts
      let mut k := 0
      for op in ops do
        k := k + 1
        -- the implementation's state after operation k-1
        match ← r.item with
        | .eof => atEof := true; break
        | .seq n => header := some n; break
        | .op j recs =>
          if j + 1 != k then break
          match parseEvent (words op) with
          | some ev =>
            let w := { loadWorld cfg recs with cmdCounts := counts }
            let so := step cfg w ev
            printBlock k op so
            counts := so.w.cmdCounts
          | none =>
            IO.println s!"op {k} {op}"
            IO.println "ev unknown-op"
            IO.println "endop"
    IO.println "endseq"

def main (args : List String) : IO UInt32 := do
  match args with
  | ["run", path] => runFile path; return 0
  | ["timer", path] => timerFile path; return 0
  | ["fn", path] => fnFile path; return 0
  | ["inv", path] => invFile path; return 0
  | ["stepfrom", opsPath, trPath] => stepFromFile opsPath trPath; return 0
  | _ =>
    IO.eprintln "usage: ircmodel run <ops-file>"
    return 2
