import Irc.Basic
